"""C14 -- part planning tiles the object and respects S3 limits.

Proof: coq/props/C14.v (+ FloatCeil).  Tie: regenerated Tables.v, differential
of the real planning functions against the extracted Plan model (exhaustive
scaled-down domain + boundary grid at real scale), end-to-end plans issued by
real _submit runs.  Search oracle: the statement of C14 evaluated on what the
implementation returns.
"""
import io
import os
import re
import tempfile

from harness import common
from harness.common import hx, unhx

EXTRACT = ['ExPlan']
COMPONENTS = ['plan']

MiB, GiB, TiB = 2 ** 20, 2 ** 30, 2 ** 40


def impl():
    from s3transfer import utils, copies, download
    import s3transfer
    return utils, copies, download, s3transfer


def parse_range_header(r):
    m = re.fullmatch(r'bytes=(\d+)-(\d*)', r)
    if not m:
        return 'BAD(' + r + ')'
    return hx(int(m.group(1))) + ':' + (hx(int(m.group(2))) if m.group(2) else '-')


# ---------------------------------------------------------------- oracle

def private_helper(owner, name, params, module=None):
    """A PRIVATE helper the unit differentials call directly, found by its historical name on the
    class or -- after it was renamed / moved to module level -- by its parameter names in the
    class or module.  None when it no longer exists as such (the end-to-end plans still cover it)."""
    import inspect
    f = getattr(owner, name, None)
    if f is not None:
        return (lambda *a: f(None, *a)) if 'self' in inspect.signature(f).parameters else f
    for holder in (owner, module):
        if holder is None:
            continue
        for n, g in vars(holder).items():
            g = getattr(g, '__func__', g)
            if not callable(g) or not hasattr(g, '__code__'):
                continue
            ps = [p for p in inspect.signature(g).parameters if p != 'self']
            if ps == list(params):
                takes_self = 'self' in inspect.signature(g).parameters
                return (lambda *a, g=g: g(None, *a)) if takes_self else g
    return None


def oracle(size, ps, thr=None, cfg_chunk=None):
    """C14 stated on the implementation's own answers for one input; returns a
    description of the failure or None."""
    utils, copies, download, legacy = impl()
    if ps is not None and size is not None:
        n = utils.calculate_num_parts(size, ps)
        if n * ps < size or (n > 0 and (n - 1) * ps >= size) or (size > 0 and n < 1) or n < 0:
            return f'num_parts({size},{ps})={n} is not the least n with n*ps>=size'
        if n <= 4000:
            prev_end = -1
            for i in range(n):
                for total in (None, size):
                    m = re.fullmatch(r'bytes=(\d+)-(\d*)', utils.calculate_range_parameter(ps, i, n, total))
                    if not m:
                        return f'range_parameter({ps},{i},{n},{total}) malformed'
                    s = int(m.group(1))
                    e = int(m.group(2)) if m.group(2) else size - 1
                    e = min(e, size - 1)
                    if s != prev_end + 1 or e < s:
                        return f'range {i} of ({size},{ps}) is bytes {s}-{e}: gap/overlap/empty after byte {prev_end}'
                cps = private_helper(copies.CopySubmissionTask, '_get_transfer_size',
                                     ('part_size', 'part_index', 'num_parts', 'total_transfer_size'), copies)
                if cps is not None and cps(ps, i, n, size) != e - s + 1:
                    return f'copy part size {i} of ({size},{ps}) differs from its range length'
                prev_end = e
            if prev_end != size - 1:
                return f'ranges of ({size},{ps}) end at byte {prev_end}, object ends at {size - 1}'
    if cfg_chunk is not None:
        adj = utils.ChunksizeAdjuster()
        c = adj.adjust_chunksize(cfg_chunk, size)
        if not (utils.MIN_UPLOAD_CHUNKSIZE <= c <= utils.MAX_SINGLE_UPLOAD_SIZE):
            return f'adjust_chunksize({cfg_chunk},{size})={c} outside [5 MiB, 5 GiB]'
        if not (5 * MiB == utils.MIN_UPLOAD_CHUNKSIZE and 5 * GiB == utils.MAX_SINGLE_UPLOAD_SIZE
                and utils.MAX_PARTS == 10000):
            return 'S3 limits in utils.py are not 5 MiB / 5 GiB / 10000'
        if size is not None:
            if size <= 5 * TiB and utils.calculate_num_parts(size, c) > 10000:
                return f'adjust_chunksize({cfg_chunk},{size})={c} gives more than 10000 parts'
            legal = 5 * MiB <= cfg_chunk <= 5 * GiB and -(-size // cfg_chunk) <= 10000
        else:
            legal = 5 * MiB <= cfg_chunk <= 5 * GiB
        if legal and c != cfg_chunk:
            return f'adjust_chunksize({cfg_chunk},{size})={c} changed a legal chunk size'
    return None


def oracle_adjust(mn, mx, mp, c, size):
    """C14's adjuster clause for an adjuster built with limits (mn, mx, mp)."""
    utils, copies, download, legacy = impl()
    got = utils.ChunksizeAdjuster(max_size=mx, min_size=mn, max_parts=mp).adjust_chunksize(c, size)
    if not (mn <= got <= mx):
        return f'adjust_chunksize({c},{size}) with limits [{mn},{mx}]/{mp} returned {got}: outside the limits'
    if size is not None and size <= mx * mp and -(-size // got) > mp:
        return (f'adjust_chunksize({c},{size}) with limits [{mn},{mx}]/{mp} returned {got}: '
                f'{-(-size // got)} parts, more than {mp}')
    legal = mn <= c <= mx and (size is None or -(-size // c) <= mp)
    if legal and got != c:
        return f'adjust_chunksize({c},{size}) with limits [{mn},{mx}]/{mp} changed a legal chunk size to {got}'
    return None


def oracle_e2e(case, out, mn, mx, mp):
    """C14 on what a real _submit run issued (out = the plan string recorded by end_to_end)."""
    size, chunk, thr, kind = case['size'], case['chunk'], case['thr'], case['kind']
    if out.startswith(('crash:', 'EXC:')):
        return f'{kind} of {size} bytes (chunk {chunk}, threshold {thr}): the front-end raised {out.split(":", 1)[1]} on a legal plan input'
    if '!' in out:
        return f'{kind} of {size} bytes (chunk {chunk}, threshold {thr}): {out.split("!", 1)[1]} differ from the object / the planned offsets'
    if out.startswith(('ranged:', 'partnumbers:')):
        return f'{kind} of {size} bytes (chunk {chunk}, threshold {thr}): unexpected plan {out}'
    single = (out == '0')
    if single != (size < thr):
        return (f'{kind} of {size} bytes with threshold {thr}, chunk {chunk}: sent as '
                f'{"one request" if single else "multipart/ranged"} (must be multipart exactly when size >= threshold)')
    if single or out in ('', 'none'):
        return None
    items = out.split(',')
    if kind in ('legacy-upload', 'legacy-download', 'pool-download'):
        kind_fmt = 'download'        # these record their plan in Range notation
    else:
        kind_fmt = kind
    if kind_fmt == 'download' or kind == 'copy':
        prev = -1
        for k, it in enumerate(items):
            rng = it.split('/')[-1] if kind == 'copy' else it
            s_, e_ = rng.split(':')
            s_ = unhx(s_)
            e_ = size - 1 if e_ == '-' else min(unhx(e_), size - 1)
            if s_ != prev + 1 or e_ < s_:
                return f'{kind} of {size} bytes (chunk {chunk}, threshold {thr}): range {k} is {s_}-{e_}, previous ended at {prev}'
            if kind == 'copy' and unhx(it.split('/')[0]) != k + 1:
                return f'copy part numbers are not 1..n: {items}'
            prev = e_
        if prev != size - 1:
            return f'{kind} of {size} bytes: ranges end at byte {prev}'
        if kind == 'copy' and mn <= chunk <= mx and -(-size // chunk) <= mp and \
                any(unhx(it.split('/')[-1].split(':')[0]) != k * chunk for k, it in enumerate(items)):
            return (f'copy of {size} bytes: the configured part size {chunk} needs no adjustment (limits [{mn},{mx}], at most {mp} '
                    f'parts) but the parts start at {[unhx(it.split("/")[-1].split(":")[0]) for it in items]}'
                    + (f' (after a copy of {case["after_copy_of"]} bytes on the same manager)' if case.get('after_copy_of') else ''))
        if kind == 'copy':
            lens = [min(unhx(it.split('/')[-1].split(':')[1]) if it.split('/')[-1].split(':')[1] != '-' else size - 1, size - 1)
                    - unhx(it.split('/')[-1].split(':')[0]) + 1 for it in items]
            if len(items) > mp or any(not (mn <= l <= mx) for l in lens[:-1]):
                return f'copy of {size} bytes (chunk {chunk}): part sizes {lens} outside [{mn},{mx}] or more than {mp} parts'
    else:
        off = 0
        for k, it in enumerate(items):
            pn, st, ln = (unhx(x) for x in it.split('/'))
            if pn != k + 1 or st != off or ln <= 0:
                return f'{kind} of {size} bytes (chunk {chunk}): part {k + 1} is number {pn} at {st} length {ln}, expected at {off}'
            off += ln
        if off != size:
            return f'{kind} of {size} bytes: part bodies cover {off} bytes'
        lens = [unhx(it.split('/')[2]) for it in items]
        if any(not (mn <= l <= mx) for l in lens[:-1]) or lens[-1] > mx or \
                (kind != 'upload-nonseekable' and len(items) > mp):
            return (f'{kind} of {size} bytes (configured chunk {chunk}): part sizes {lens} violate the part-size limits '
                    f'[{mn},{mx}] / at most {mp} parts')
    return None


# ---------------------------------------------------------------- cases

def boundary_grid(ctx, n_random):
    rng = ctx.rng('grid')
    pts = set()
    base_ps = [1, 2, 3, 7, 1000, 5 * MiB - 1, 5 * MiB, 5 * MiB + 1, 8 * MiB, 64 * MiB,
               5 * GiB - 1, 5 * GiB, 5 * GiB + 1, 2 ** 31 - 1, 2 ** 31, 2 ** 32 + 1]
    for ps in base_ps:
        for k in [0, 1, 2, 3, 9999, 10000, 10001]:
            for d in (-1, 0, 1):
                s = k * ps + d
                if 0 <= s < 2 ** 53:
                    pts.add((s, ps))
    for j in range(1, 53):
        for d in (-1, 0, 1):
            s = 2 ** j + d
            for ps in (1, 3, 2 ** (j // 2), 2 ** (j // 2) + 1, 5 * MiB, 8 * MiB):
                if s < 2 ** 53:
                    pts.add((s, ps))
    for lim in (5 * TiB, 5 * GiB * 10000, 5 * MiB * 10000, 2 ** 53 - 1):
        for d in (-1, 0, 1):
            if lim + d < 2 ** 53:
                for ps in (5 * MiB, 8 * MiB, 5 * GiB, 512 * MiB, 512 * MiB + 1, (lim + d) // 10000 or 1,
                           ((lim + d) // 10000 or 1) + 1):
                    pts.add((lim + d, ps))
    # float-rounding edges: size = k*ps +- 1 with k*ps close to 2^53
    for _ in range(n_random):
        ps = rng.choice([rng.randrange(1, 2 ** 20), rng.randrange(1, 2 ** 33), rng.randrange(1, 2 ** 45)])
        kmax = (2 ** 53 - 2) // ps
        k = rng.choice([kmax, rng.randrange(0, kmax + 1), rng.randrange(0, min(kmax, 20000) + 1)])
        for d in (-1, 0, 1):
            s = k * ps + d
            if 0 <= s < 2 ** 53:
                pts.add((s, ps))
    return sorted(pts)


def run(ctx):
    ok = common.proofs(ctx, 'C14', EXTRACT, COMPONENTS)
    ctx.assumptions = [
        'IEEE-754 binary64 semantics of Python float division (one correctly rounded division of exactly converted operands) and exact math.ceil: under it theorem C14_float_ceiling_is_integer_ceiling (Flocq; standard-library real-number axioms) identifies the code\'s expression with the integer model; the boundary grid cross-checks it on the real interpreter',
        'sizes below 2^53 (5 TiB and 5 GiB are far below)',
        'the extracted OCaml model and its line driver are trusted for the correspondence only',
    ]
    ctx.cov['rule'] = ('cases: (size, part_size) on an exhaustive scaled-down domain and a boundary grid at real scale '
                       '(k*ps-1/+0/+1, S3 limits +-1, 2^j +-1, products near 2^53), each evaluated by the real '
                       'utils/copies functions and by the extracted Coq model; (chunk,size) for the adjuster with real and '
                       'scaled limits; end-to-end plans from real _submit runs. A case is non-trivial/distinct by its '
                       'model command line (inputs), counted once.')
    utils, copies, download, legacy = impl()
    fails = []

    if ctx.broken is None:
        # ---- A. pure planning functions, exhaustive scaled-down domain
        smax, cmax = (400, 48) if ctx.thorough() else (140, 20)
        cases = [('np', s, p) for s in range(0, smax + 1) for p in range(1, cmax + 1)]
        mism = common.differential(
            ctx, 'plan', cases,
            lambda c: f'np {hx(c[1])} {hx(c[2])}',
            lambda c: hx(utils.calculate_num_parts(c[1], c[2])),
            hist=lambda c, o: {'fn': 'num_parts-small'})
        fails += [('num_parts', c, i, m) for c, i, m in mism]
        rcases = []
        for s in range(0, smax + 1, 3 if not ctx.thorough() else 1):
            for p in range(1, cmax + 1):
                n = -(-s // p)
                for i in range(n):
                    rcases.append((p, i, n, s))
        for total_known in (True, False):
            mism = common.differential(
                ctx, 'plan', rcases,
                lambda c: f'rp {hx(c[0])} {hx(c[1])} {hx(c[2])} {hx(c[3]) if total_known else "-"}',
                lambda c: parse_range_header(utils.calculate_range_parameter(
                    c[0], c[1], c[2], c[3] if total_known else None)),
                hist=lambda c, o: {'fn': 'range-total' if total_known else 'range-open'})
            fails += [('range_parameter', c, i, m) for c, i, m in mism]
        cps = private_helper(copies.CopySubmissionTask, '_get_transfer_size',
                             ('part_size', 'part_index', 'num_parts', 'total_transfer_size'), copies)
        if cps is None:
            ctx.notes.append('the private copy part-size helper was not found by name or signature: its unit differential is '
                             'skipped, copy plans are compared end to end')
        else:
            mism = common.differential(
                ctx, 'plan', rcases,
                lambda c: f'cps {hx(c[0])} {hx(c[1])} {hx(c[2])} {hx(c[3])}',
                lambda c: hx(cps(c[0], c[1], c[2], c[3])),
                hist=lambda c, o: {'fn': 'copy-part-size'})
            fails += [('copy_part_size', c, i, m) for c, i, m in mism]
        # the two private duplicates of the range computation
        lrp = private_helper(legacy.MultipartDownloader, '_calculate_range_param', ('part_size', 'part_index', 'num_parts'), legacy)
        if lrp is None:
            ctx.notes.append('the legacy private range helper was not found by name or signature: its unit differential is '
                             'skipped, legacy download plans are compared end to end')
        else:
            mism = common.differential(
                ctx, 'plan', rcases,
                lambda c: f'rp {hx(c[0])} {hx(c[1])} {hx(c[2])} -',
                lambda c: parse_range_header(lrp(c[0], c[1], c[2])),
                hist=lambda c, o: {'fn': 'legacy-range'})
            fails += [('legacy._calculate_range_param', c, i, m) for c, i, m in mism]
        # scaled adjuster: all (min,max,maxparts) small, all chunk/size
        acases = []
        rng = ctx.rng('adjw')
        lim_sets = [(2, 16, 5), (1, 7, 3), (4, 4, 2), (3, 50, 10), (5, 8, 1)]
        for (mn, mx, mp) in lim_sets:
            for c in range(1, (30 if ctx.thorough() else 14)):
                for s in [None] + list(range(0, smax + 1, 1 if ctx.thorough() else 5)):
                    acases.append((mn, mx, mp, c, s))
        mism = common.differential(
            ctx, 'plan', acases,
            lambda c: f'adjw {hx(c[0])} {hx(c[1])} {hx(c[2])} {hx(c[3])} {"-" if c[4] is None else hx(c[4])}',
            lambda c: hx(utils.ChunksizeAdjuster(max_size=c[1], min_size=c[0], max_parts=c[2])
                         .adjust_chunksize(c[3], c[4])),
            hist=lambda c, o: {'fn': 'adjust-scaled'})
        fails += [('adjust_chunksize(scaled)', c, i, m) for c, i, m in mism]

        # ---- B. boundary grid at real scale
        grid = boundary_grid(ctx, 4000 if ctx.thorough() else 600)
        mism = common.differential(
            ctx, 'plan', grid,
            lambda c: f'np {hx(c[0])} {hx(c[1])}',
            lambda c: hx(utils.calculate_num_parts(c[0], c[1])),
            hist=lambda c, o: {'fn': 'num_parts-grid'})
        fails += [('num_parts', ('np',) + c, i, m) for c, i, m in mism]
        agrid = [(c, s) for (s, c) in grid if s <= 5 * GiB * 10000][:: (1 if ctx.thorough() else 3)]
        agrid += [(c, None) for c in (1, 5 * MiB - 1, 5 * MiB, 8 * MiB, 5 * GiB, 5 * GiB + 1, 2 ** 40)]
        mism = common.differential(
            ctx, 'plan', agrid,
            lambda c: f'adj {hx(c[0])} {"-" if c[1] is None else hx(c[1])}',
            lambda c: hx(utils.ChunksizeAdjuster().adjust_chunksize(c[0], c[1])),
            hist=lambda c, o: {'fn': 'adjust-real'})
        fails += [('adjust_chunksize', c, i, m) for c, i, m in mism]
        for (s, p) in grid[:: (2 if ctx.thorough() else 8)]:
            r = oracle(s, p if -(-s // p) <= 4000 else None, cfg_chunk=p)
            if r:
                ctx.report(f'oracle:{s}:{p}', r, {'kind': 'input', 'component': 'plan', 'case': {'size': s, 'part_size': p, 'cfg_chunk': p}})

        # ---- C. end-to-end plans from real _submit runs
        fails += end_to_end(ctx)

    # every mismatch: is it a property violation on the implementation?
    found_input = False
    fails.sort(key=lambda f: 0 if f[0].startswith('e2e') else 1)
    for (what, c, i, m) in fails[:400]:
        size, ps = case_size_ps(what, c)
        if what == 'adjust_chunksize(scaled)':
            r = oracle_adjust(c[0], c[1], c[2], c[3], c[4])
        elif what.startswith('e2e'):
            r = oracle_e2e(c, i, 2, 9, 4)
        else:
            r = oracle(size, ps, cfg_chunk=ps) if size is not None or ps is not None else None
        if r and found_input:
            continue
        if not r and found_input:
            continue
        if r:
            found_input = True
            ctx.report(f'oracle:{size}:{ps}', r, {'kind': 'input', 'component': what,
                                                 'case': {'size': size, 'part_size': ps, 'cfg_chunk': ps}})
        else:
            ctx.report(f'corr:{what}', f'model and implementation disagree on {what} for {c}: impl={i} model={m}',
                       {'kind': 'correspondence', 'theorem_or_correspondence': f'differential plan/{what}',
                        'case': list(c) if isinstance(c, tuple) else c, 'impl': i, 'model': m}, no_input=True)
    if ctx.broken is not None:
        search_after_break(ctx)


def case_size_ps(what, c):
    if what == 'num_parts':
        return c[1], c[2]
    if what in ('range_parameter', 'copy_part_size', 'legacy._calculate_range_param'):
        return c[3], c[0]
    if what == 'adjust_chunksize':
        return c[1], c[0]
    if what.startswith('e2e'):
        return c.get('size'), c.get('chunk')
    return None, None


def search_after_break(ctx):
    """A proof obligation or the build broke: look for a concrete failing input."""
    found = False
    for (s, p) in boundary_grid(ctx, 300):
        r = oracle(s, p if -(-s // p) <= 2000 else None, cfg_chunk=p)
        if r:
            ctx.report(f'oracle:{s}:{p}', r, {'kind': 'input', 'component': 'plan',
                                             'case': {'size': s, 'part_size': p, 'cfg_chunk': p},
                                             'broken': ctx.broken.what})
            found = True
            break
    if not found:
        for s in range(0, 80):
            for p in range(1, 12):
                r = oracle(s, p)
                if r:
                    ctx.report(f'oracle:{s}:{p}', r, {'kind': 'input', 'component': 'plan',
                                                     'case': {'size': s, 'part_size': p}, 'broken': ctx.broken.what})
                    found = True
                    break
            if found:
                break
    if not found:
        ctx.report(f'broken:{ctx.broken.what}', ctx.broken.what,
                   {'kind': 'theorem', 'theorem_or_correspondence': ctx.broken.what, 'log': ctx.broken.log},
                   no_input=True)


# ---------------------------------------------------------------- end to end

def scaled_adjuster(utils, mn, mx, mp):
    """ChunksizeAdjuster() is built with its defaults inside _submit: scale them."""
    class Patch:
        def __enter__(self):
            self.old = utils.ChunksizeAdjuster.__init__.__defaults__
            utils.ChunksizeAdjuster.__init__.__defaults__ = (mx, mn, mp)

        def __exit__(self, *a):
            utils.ChunksizeAdjuster.__init__.__defaults__ = self.old
    return Patch()


def _ranges_of_parts(parts, size):
    """[(offset, length)] -> the Range-header notation of the model ('s:e', last open-ended)."""
    items = []
    for k, (off, ln) in enumerate(parts):
        last = k == len(parts) - 1 and off + ln == size
        items.append(f'{hx(off)}:-' if last else f'{hx(off)}:{hx(off + ln - 1)}')
    return ','.join(items)


def other_front_ends(size, chunk, thr, data, tmpdir):
    """(front-end name, plan string) for the legacy uploader / downloader and the
    process-pool submitter on one (size, chunk, threshold)."""
    from harness.fakes3 import FakeS3
    import s3transfer
    from s3transfer import processpool
    from harness.props.c02 import _Monitor, _Queue
    out = []
    src = os.path.join(tmpdir, 'lsrc')
    open(src, 'wb').write(data)
    # legacy upload_file
    try:
        c = FakeS3()
        t = s3transfer.S3Transfer(c, s3transfer.TransferConfig(multipart_threshold=thr, multipart_chunksize=chunk,
                                                               max_concurrency=1))
        t.upload_file(src, 'b', 'k')
        if c.calls('PutObject'):
            got = '0'
        else:
            parts, off = [], 0
            for r in sorted(c.calls('UploadPart'), key=lambda r: r['kwargs']['PartNumber']):
                parts.append((off, r['body_len']))
                off += r['body_len']
            pns = [r['kwargs']['PartNumber'] for r in sorted(c.calls('UploadPart'), key=lambda r: r['kwargs']['PartNumber'])]
            got = _ranges_of_parts(parts, size) if pns == list(range(1, len(pns) + 1)) else f'partnumbers:{pns}'
        if c.objects.get(('b', 'k')) != data:
            got += '!bytes'
    except Exception as e:      # noqa: a crash is a disagreement with the model, reported with the case
        got = f'crash:{type(e).__name__}'
    out.append(('legacy-upload', got))
    # legacy download_file
    try:
        c = FakeS3()
        c.objects[('b', 'k')] = data
        t = s3transfer.S3Transfer(c, s3transfer.TransferConfig(multipart_threshold=thr, multipart_chunksize=chunk,
                                                               max_concurrency=1))
        dst = os.path.join(tmpdir, 'ldst')
        t.download_file('b', 'k', dst)
        gets = [r['kwargs'].get('Range') for r in c.calls('GetObject')]
        if size >= thr:
            got = '0' if gets == [None] else ','.join(sorted((parse_range_header(r) for r in gets if r is not None),
                                                             key=lambda x: unhx(x.split(':')[0])))
        else:
            got = '0' if gets == [None] else f'ranged:{gets}'
        if open(dst, 'rb').read() != data:
            got += '!bytes'
    except Exception as e:      # noqa
        got = f'crash:{type(e).__name__}'
    out.append(('legacy-download', got))
    # process-pool submitter (allocate(0) is refused: the pool cannot fetch an empty object)
    if size > 0:
        try:
            from s3transfer.utils import OSUtils
            c = FakeS3()
            c.objects[('b', 'k')] = data
            q = _Queue()
            sub = processpool.GetObjectSubmitter(
                transfer_config=processpool.ProcessTransferConfig(multipart_threshold=thr, multipart_chunksize=chunk),
                client_factory=None, transfer_monitor=_Monitor(), osutil=OSUtils(), download_request_queue=None, worker_queue=q)
            sub._client = c
            sub._submit_get_object_jobs(processpool.DownloadFileRequest(
                transfer_id=1, bucket='b', key='k', filename=os.path.join(tmpdir, 'pdst'), extra_args={}, expected_size=size))
            rngs = [j.extra_args.get('Range') for j in q.items]
            offs = [j.offset for j in q.items]
            if size >= thr:
                got = '0' if rngs == [None] else ','.join(parse_range_header(r) for r in rngs if r is not None)
                starts = [unhx(x.split(':')[0]) for x in got.split(',')] if got != '0' else []
                if starts != offs and got != '0':
                    got += f'!offsets:{offs}'
            else:
                got = '0' if rngs == [None] else f'ranged:{rngs}'
            for f in os.listdir(tmpdir):
                if f.startswith('pdst'):
                    os.remove(os.path.join(tmpdir, f))
        except Exception as e:  # noqa
            got = f'crash:{type(e).__name__}'
        out.append(('pool-download', got))
    return out


def end_to_end(ctx):
    from harness.fakes3 import FakeS3, NonSeekableReader
    from s3transfer.manager import TransferManager, TransferConfig
    from s3transfer.futures import NonThreadedExecutor
    from s3transfer import utils
    import s3transfer
    fails = []
    rng = ctx.rng('e2e')
    mn, mx, mp = 2, 9, 4
    triples = []
    sizes = list(range(0, 22)) if not ctx.thorough() else list(range(0, 40))
    for size in sizes:
        for chunk in (1, 2, 3, 5):
            for thr in (1, chunk, chunk + 1, 7):
                triples.append((size, chunk, thr))
    if not ctx.thorough():
        triples = [t for k, t in enumerate(triples) if k % 3 == 0]
    data_all = bytes(rng.randrange(256) for _ in range(64))
    tmpdir = tempfile.mkdtemp(prefix='verif-c14-')
    lines, outs, cases = [], [], []
    try:
        with scaled_adjuster(utils, mn, mx, mp):
            for (size, chunk, thr) in triples:
                data = data_all[:size]
                cfg = TransferConfig(multipart_threshold=thr, multipart_chunksize=chunk, io_chunksize=3)
                # download (ranges use the configured chunk, no adjuster)
                c = FakeS3()
                c.objects[('b', 'k')] = data
                with TransferManager(c, cfg, executor_cls=NonThreadedExecutor) as m:
                    m.download('b', 'k', io.BytesIO()).result()
                gets = [r['kwargs'].get('Range') for r in c.calls('GetObject')]
                if size >= thr:
                    got = '0' if gets == [None] else ','.join(parse_range_header(r) for r in gets if r is not None)
                    lines.append(f'dl {hx(size)} {hx(chunk)}')
                else:
                    got = 'single' if gets == [None] else f'ranged:{gets}'
                    lines.append(f'mp {hx(size)} {hx(thr)}')
                    got = '0' if got == 'single' else got
                outs.append(got)
                cases.append({'kind': 'download', 'size': size, 'chunk': chunk, 'thr': thr})
                # upload from a path
                path = os.path.join(tmpdir, 'src')
                open(path, 'wb').write(data)
                for src_kind in ('path', 'seekable', 'seekable@3', 'seekable-short', 'nonseekable'):
                    c = FakeS3()
                    src = path if src_kind == 'path' else (
                        io.BytesIO(data) if src_kind == 'seekable' else NonSeekableReader(data))
                    if src_kind == 'seekable-short':
                        from harness.fakes3 import ShortReadBytesIO
                        src = ShortReadBytesIO(data, cap=1 + size % 3)     # read(n) returns at most 1-3 bytes
                    if src_kind == 'seekable@3':
                        # a seekable stream positioned past byte 0: its size is what is left
                        src = io.BytesIO(b'XYZ' + data)
                        src.seek(3)
                    with TransferManager(c, cfg, executor_cls=NonThreadedExecutor) as m:
                        m.upload(src, 'b', 'k').result()
                    parts = [(r['kwargs']['PartNumber'], r['body_len']) for r in c.calls('UploadPart')]
                    if c.calls('PutObject'):
                        got = '0'
                        lines.append(f'mp {hx(size)} {hx(thr)}')
                    else:
                        off, items = 0, []
                        for pn, ln in parts:
                            items.append(f'{hx(pn)}/{hx(off)}/{hx(ln)}')
                            off += ln
                        got = ','.join(items)
                        if src_kind == 'nonseekable':
                            # size unknown: only the clamp applies to the chunk
                            lines.append(f'upw {hx(mn)} {hx(mx)} {hx(10 ** 9)} {hx(size)} {hx(chunk)}')
                        else:
                            lines.append(f'upw {hx(mn)} {hx(mx)} {hx(mp)} {hx(size)} {hx(chunk)}')
                    outs.append(got)
                    cases.append({'kind': 'upload-' + src_kind, 'size': size, 'chunk': chunk, 'thr': thr})
                    if c.objects.get(('b', 'k')) != data:
                        ctx.report(f'e2e-bytes:{src_kind}:{size}:{chunk}:{thr}',
                                   f'upload of {size} bytes ({src_kind}, chunk {chunk}, threshold {thr}) stored different bytes',
                                   {'kind': 'input', 'component': 'e2e-upload', 'case': cases[-1]})
                # copy
                c = FakeS3()
                c.objects[('sb', 'sk')] = data
                with TransferManager(c, cfg, executor_cls=NonThreadedExecutor) as m:
                    m.copy({'Bucket': 'sb', 'Key': 'sk'}, 'b', 'k').result()
                if c.calls('CopyObject'):
                    got = '0'
                    lines.append(f'mp {hx(size)} {hx(thr)}')
                else:
                    items = []
                    for r in c.calls('UploadPartCopy'):
                        items.append(f"{hx(r['kwargs']['PartNumber'])}/{parse_range_header(r['kwargs']['CopySourceRange'])}")
                    got = ','.join(items)
                    lines.append(f'cpw {hx(mn)} {hx(mx)} {hx(mp)} {hx(size)} {hx(chunk)}')
                outs.append(got)
                cases.append({'kind': 'copy', 'size': size, 'chunk': chunk, 'thr': thr})
                if c.objects.get(('b', 'k')) != data:
                    ctx.report(f'e2e-bytes:copy:{size}:{chunk}:{thr}',
                               f'copy of {size} bytes (chunk {chunk}, threshold {thr}) stored different bytes',
                               {'kind': 'input', 'component': 'e2e-copy', 'case': cases[-1]})
                # the configured chunk size is per manager, not per transfer: a copy that needed a larger
                # part size must not change the plan of the next copy on the same manager
                if size >= thr and (size + chunk - 1) // chunk > mp:
                    c = FakeS3()
                    c.objects[('sb', 'big')] = data
                    small = data[:min(size, max(thr, 2 * chunk))]
                    c.objects[('sb', 'small')] = small
                    with TransferManager(c, cfg, executor_cls=NonThreadedExecutor) as m:
                        m.copy({'Bucket': 'sb', 'Key': 'big'}, 'b', 'k1').result()
                        n0 = len(c.calls('UploadPartCopy'))
                        m.copy({'Bucket': 'sb', 'Key': 'small'}, 'b', 'k2').result()
                    second = c.calls('UploadPartCopy')[n0:]
                    if second:
                        got = ','.join(f"{hx(r['kwargs']['PartNumber'])}/{parse_range_header(r['kwargs']['CopySourceRange'])}" for r in second)
                        lines.append(f'cpw {hx(mn)} {hx(mx)} {hx(mp)} {hx(len(small))} {hx(chunk)}')
                        outs.append(got)
                        cases.append({'kind': 'copy', 'size': len(small), 'chunk': chunk, 'thr': thr, 'after_copy_of': size})
                # the other front-ends that plan parts: legacy S3Transfer and the process-pool submitter
                for fe, got in other_front_ends(size, chunk, thr, data, tmpdir):
                    lines.append(f'dl {hx(size)} {hx(chunk)}' if size >= thr else f'mp {hx(size)} {hx(thr)}')
                    outs.append(got)
                    cases.append({'kind': fe, 'size': size, 'chunk': chunk, 'thr': thr})
    finally:
        import shutil
        shutil.rmtree(tmpdir, ignore_errors=True)
    model = common.run_model('plan', lines)
    for cs, l, o, m in zip(cases, lines, outs, model):
        mm = m
        if l.startswith('mp '):
            mm = m   # '1' means the model says multipart; impl printed '0' for single
        elif l.startswith('cpw '):
            mm = ','.join('/'.join(x.split('/')[:2]) for x in m.split(',')) if m not in ('', 'none') else m
        ctx.count('plan-e2e', 1, nontrivial_key=(cs['kind'], l), kind=cs['kind'],
                  mode='single' if o == '0' else 'multipart')
        if o != mm:
            fails.append(('e2e-' + cs['kind'], cs, o, mm))
    ctx.sample({'component': 'plan-e2e', 'case': cases[-1], 'model_cmd': lines[-1], 'impl_plan': outs[-1]})
    return fails


def replay(ctx, data):
    case = data.get('case') or {}
    if isinstance(case, dict) and ('size' in case or 'part_size' in case):
        r = oracle(case.get('size'), case.get('part_size') or case.get('chunk'), cfg_chunk=case.get('cfg_chunk'))
        print('oracle:', r)
        return r is not None
    # theorem/correspondence replays: re-run the quick check
    run(ctx)
    return bool(ctx.violations)
