"""C15 -- extra arguments reach exactly the S3 operations that accept them.

Proof: coq/props/C15.v over coq/model/Route.v, gen/Tables.v (allow-lists and
per-operation filters regenerated from the source) and gen/Shapes.v (input
shapes regenerated from the installed botocore).

Tie: every (front-end, method, mode, size known?, allowed name) cell -- and all
ordered pairs around the checksum names, random subsets and a malformed stream
of names outside the allow-lists -- is run through the REAL code with a
recording client (TransferManager with NonThreadedExecutor on harness.fakes3;
legacy S3Transfer on the same fake; the process pool's real download_file,
GetObjectSubmitter and GetObjectWorker driven in-process over queue.Queue) and
the exact keyword arguments of every call are compared with the extracted
model's routing.

Search oracle (implementation alone, no model): every keyword of every recorded
call must be a member of the installed botocore input shape of that operation,
every allowed user argument the shape accepts must be there with the user's
value (modulo the exceptions C15 itemises), user values must sit under their
own (or mapped) name, library literals must be the itemised ones.
"""
import io
import os
import queue
import re
import shutil
import tempfile

from harness import common
from harness.common import hx

EXTRACT = ['ExRoute']
COMPONENTS = ['route']

THRESHOLD, CHUNK = 4, 2
STRUCT = {'Bucket', 'Key', 'Body', 'UploadId', 'PartNumber', 'MultipartUpload',
          'CopySource', 'Range', 'CopySourceRange'}
SSEC = ('SSECustomerAlgorithm', 'SSECustomerKey', 'SSECustomerKeyMD5')
F6 = ('RequestPayer',) + SSEC
OPS = ['PutObject', 'CreateMultipartUpload', 'UploadPart', 'CompleteMultipartUpload',
       'AbortMultipartUpload', 'HeadObject', 'GetObject', 'CopyObject', 'UploadPartCopy',
       'DeleteObject']


# ------------------------------------------------------------------ modes

def all_modes():
    B = (False, True)
    ms = [('tmup', ws, mp) for ws in B for mp in B]
    ms += [('tmdl', kn, rg) for kn in B for rg in B]
    ms += [('tmcp', kn, mp, sv) for kn in B for mp in B for sv in B]
    ms += [('tmdel',)]
    ms += [('legup', mp) for mp in B]
    ms += [('legdl', rg) for rg in B]
    ms += [('pool', kn, rg) for kn in B for rg in B]
    return ms


def fe_name(mode):
    return {'tmup': 'tm_upload', 'tmdl': 'tm_download', 'tmcp': 'tm_copy', 'tmdel': 'tm_delete',
            'legup': 'legacy_upload', 'legdl': 'legacy_download', 'pool': 'pool_download'}[mode[0]]


def mode_name(mode):
    k = mode[0]
    if k in ('tmup', 'legup'):
        return 'multipart' if mode[-1] else 'single'
    if k == 'tmcp':
        return 'multipart' if mode[2] else 'single'
    if k in ('tmdl', 'pool'):
        return 'ranged' if mode[2] else 'single'
    if k == 'legdl':
        return 'ranged' if mode[1] else 'single'
    return 'single'


def is_multi(mode):
    return mode_name(mode) != 'single'


def allowed_of(mode):
    """The implementation's own allow-list of the front-end."""
    import s3transfer
    from s3transfer.manager import TransferManager
    from s3transfer import processpool
    k = mode[0]
    if k == 'tmup':
        return list(TransferManager.ALLOWED_UPLOAD_ARGS)
    if k == 'tmdl':
        return list(TransferManager.ALLOWED_DOWNLOAD_ARGS)
    if k == 'tmcp':
        return list(TransferManager.ALLOWED_COPY_ARGS)
    if k == 'tmdel':
        return list(TransferManager.ALLOWED_DELETE_ARGS)
    if k == 'legup':
        return list(s3transfer.S3Transfer.ALLOWED_UPLOAD_ARGS)
    if k == 'legdl':
        return list(s3transfer.S3Transfer.ALLOWED_DOWNLOAD_ARGS)
    return list(processpool.ALLOWED_DOWNLOAD_ARGS)


_SHAPES = {}


def shapes():
    """Input-shape member names of the installed botocore (read directly, not via Shapes.v)."""
    if not _SHAPES:
        import botocore.session
        model = botocore.session.get_session().get_service_model('s3')
        for op in OPS:
            _SHAPES[op] = set(model.operation_model(op).input_shape.members)
    return _SHAPES


# ------------------------------------------------------------------ running the real code

def uval(i):
    return 'u' + format(i, 'x')


class FalsyStr(str):
    """A value that is valid and NOT empty but tests false (like the epoch 0 for a date argument, 0 for a
    number, an empty mapping for Metadata): routing must depend on the NAME being present, never on
    the value's truthiness."""

    def __bool__(self):
        return False


def canon_val(name, v, expected_src=None):
    if isinstance(v, str) and re.fullmatch(r'u[0-9a-f]+', v):
        return 'U:' + v[1:]
    if name == 'CopySource':
        # the value handed to CopyObject / UploadPartCopy must be exactly what the caller gave
        if isinstance(v, dict) and v == expected_src:
            return 'P'
        return 'L:CopySource' + (str(sorted(v)) if isinstance(v, dict) else repr(v)).replace(' ', '').replace(',', ';')
    if name in STRUCT or (name == 'VersionId' and v == 'srcver'):
        return 'P'
    return 'L:' + str(v)


def canon_calls(recs, expected_src=None):
    out = []
    for rec in recs:
        kw = dict(rec['kwargs'])
        if 'body_len' in rec:
            kw['Body'] = b''
        out.append((rec['op'], sorted((k, canon_val(k, v, expected_src)) for k, v in kw.items())))
    return out


def show(calls):
    if calls == 'REJECT' or isinstance(calls, str):
        return calls
    return '|'.join(op + '(' + ','.join(f'{k}={v}' for k, v in kw) + ')' for op, kw in calls)


class Env:
    """Scratch directory and the scaled ChunksizeAdjuster for a batch of runs."""

    def __enter__(self):
        from s3transfer import utils
        self.tmp = tempfile.mkdtemp(prefix='verif-c15-')
        self.utils = utils
        self.old = utils.ChunksizeAdjuster.__init__.__defaults__
        utils.ChunksizeAdjuster.__init__.__defaults__ = (1000, 1, 10000)   # (max_size, min_size, max_parts)
        self.n = 0
        return self

    def __exit__(self, *a):
        self.utils.ChunksizeAdjuster.__init__.__defaults__ = self.old
        shutil.rmtree(self.tmp, ignore_errors=True)

    def path(self, tag):
        self.n += 1
        return os.path.join(self.tmp, f'{tag}{self.n}')


def recording_client(calc):
    """harness.fakes3.FakeS3 whose log keeps a SNAPSHOT (one level deep) of the keyword
    arguments as they were at call time, so that a later mutation of a shared dictionary
    can neither hide nor fake anything."""
    from harness.fakes3 import FakeS3

    class RecS3(FakeS3):
        def _begin(self, op, kwargs):
            rec = FakeS3._begin(self, op, kwargs)
            rec['kwargs'] = {k: (dict(v) if isinstance(v, dict) else v) for k, v in rec['kwargs'].items()}
            return rec
    return RecS3(calc)


class Rig:
    """One front-end object (one TransferManager / S3Transfer / ProcessPoolDownloader) on one
    recording client, with the caller-owned objects a user would naturally re-use between
    transfers: the copy_source dictionary and the subscribers list.  step() runs one
    transfer to completion and returns the calls it made."""

    def __init__(self, env, mode):
        from s3transfer.manager import TransferManager, TransferConfig
        from s3transfer.futures import NonThreadedExecutor
        from s3transfer.subscribers import BaseSubscriber
        import s3transfer
        self.env = env
        self.kind = k = mode[0]
        self.client = recording_client('when_supported' if (k == 'tmup' and mode[1]) else 'when_required')
        self.copy_source = {'Bucket': 'sb', 'Key': 'sk'}
        if k == 'tmcp' and mode[3]:
            self.copy_source['VersionId'] = 'srcver'
        self.copy_source_given = dict(self.copy_source)
        self.copy_source_seen = dict(self.copy_source)
        self.size_holder = holder = {'size': None}

        class ProvideSize(BaseSubscriber):
            def on_queued(self, future, **kwargs):
                if holder['size'] is not None:
                    future.meta.provide_transfer_size(holder['size'])
        self.subscribers = [ProvideSize()]
        self.subscribers_given = list(self.subscribers)
        self.manager = self.legacy = self.pool = None
        if k in ('tmup', 'tmdl', 'tmcp', 'tmdel'):
            cfg = TransferConfig(multipart_threshold=THRESHOLD, multipart_chunksize=CHUNK, io_chunksize=3)
            self.manager = TransferManager(self.client, cfg, executor_cls=NonThreadedExecutor)
        elif k in ('legup', 'legdl'):
            self.legacy = s3transfer.S3Transfer(self.client, s3transfer.TransferConfig(
                multipart_threshold=THRESHOLD, multipart_chunksize=CHUNK))
        else:
            self._init_pool()

    def _init_pool(self):
        """The real ProcessPoolDownloader built by its public constructor and driven through its
        public API; what it would fork runs in this process (harness/poolrig.py): the real
        GetObjectSubmitter and GetObjectWorker loops run to completion when shutdown() joins them."""
        from harness import poolrig
        from s3transfer import processpool as pp
        self.rig = poolrig.SyncPool(self.client).install()
        self.pool = pp.ProcessPoolDownloader(config=pp.ProcessTransferConfig(
            multipart_threshold=THRESHOLD, multipart_chunksize=CHUNK, max_request_processes=1))
        self.pp = pp

    def close(self):
        if self.manager is not None:
            self.manager.shutdown()
        if self.pool is not None:
            try:
                self.pool.shutdown()
            finally:
                self.rig.uninstall()

    def step(self, mode, extra, size):
        """extra is passed to the front-end AS IS (the caller's object, or None)."""
        from harness.fakes3 import NonSeekableReader, NonSeekableWriter
        assert mode[0] == self.kind
        env, client, k = self.env, self.client, self.kind
        data = bytes(range(65, 65 + size))
        n0 = len(client.log)

        def rejected(e):
            if 'Invalid extra_args key' in str(e):
                return 'REJECT' if len(client.log) == n0 else 'REJECT-AFTER-REQUESTS'
            return None
        try:
            if self.manager is not None:
                m = self.manager
                variant = (len(extra or {}) + size) % 3   # source / destination kind: all go through the same _submit
                try:
                    if k == 'tmup':
                        if variant == 0:
                            src_obj = io.BytesIO(data)
                        elif variant == 1:
                            src_obj = env.path('src')
                            with open(src_obj, 'wb') as f:
                                f.write(data)
                        else:
                            src_obj = NonSeekableReader(data)
                        fut = m.upload(src_obj, 'b', 'k', extra_args=extra, subscribers=self.subscribers)
                    elif k == 'tmdl':
                        client.objects[('b', 'k')] = data
                        self.size_holder['size'] = size if mode[1] else None
                        dst = io.BytesIO() if variant == 0 else (env.path('dst') if variant == 1 else NonSeekableWriter())
                        fut = m.download('b', 'k', dst, extra_args=extra, subscribers=self.subscribers)
                    elif k == 'tmcp':
                        client.objects[('sb', 'sk')] = data
                        self.size_holder['size'] = size if mode[1] else None
                        # (a caller-supplied source client -- here the same client object -- must not
                        #  change what is validated or sent)
                        kw_sc = {'source_client': client} if variant == 1 else {}
                        fut = m.copy(self.copy_source, 'b', 'k', extra_args=extra, subscribers=self.subscribers, **kw_sc)
                    else:
                        client.objects[('b', 'k')] = data
                        fut = m.delete('b', 'k', extra_args=extra, subscribers=self.subscribers)
                except ValueError as e:
                    r = rejected(e)
                    if r:
                        return r
                    raise
                fut.result()
            elif k == 'legup':
                path = env.path('up')
                with open(path, 'wb') as f:
                    f.write(data)
                try:
                    self.legacy.upload_file(path, 'b', 'k', extra_args=extra)
                except ValueError as e:
                    r = rejected(e)
                    if r:
                        return r
                    raise
            elif k == 'legdl':
                client.objects[('b', 'k')] = data
                try:
                    self.legacy.download_file('b', 'k', env.path('dl'), extra_args=extra)
                except ValueError as e:
                    r = rejected(e)
                    if r:
                        return r
                    raise
            else:
                client.objects[('b', 'k')] = data
                d, pp = self.pool, self.pp
                try:
                    fut = d.download_file('b', 'k', env.path('pool'), extra_args=extra,
                                          expected_size=size if mode[1] else None)
                except ValueError as e:
                    r = rejected(e)
                    if r:
                        return r if not self.rig.pending_requests() else 'REJECT-AFTER-REQUESTS'
                    raise
                d.shutdown()             # stop signals, then the submitter's and the worker's own loops run
                # One downloader object serves the whole sequence, i.e. it is restarted by the next
                # download_file().  The downloader never clears its worker list, so every later
                # shutdown leaves surplus stop signals in the job queue (side observation S-pool-restart
                # in DESIGN.md 9.9; outside C15 and outside C19's one-cycle quantifier): drop them here.
                for q_ in self.rig.queues:
                    while not q_.empty():
                        q_.get_nowait()
                if not fut.done():
                    return 'EXC:NotDone'
                try:
                    fut.result()
                except Exception as exc:     # noqa: the transfer's recorded failure
                    return f'EXC:{type(exc).__name__}'
        except Exception as e:   # noqa: BLE001  -- canonicalised, compared with the model like any output
            return f'EXC:{type(e).__name__}'
        return canon_calls(client.log[n0:], self.copy_source_given)

    def caller_objects_changed(self):
        """Names of the caller-owned shared objects the library has modified."""
        out = []
        if self.copy_source != self.copy_source_seen:     # relative to the state before this transfer
            out.append(('copy_source', f'{self.copy_source_seen} became {self.copy_source}'))
            self.copy_source_seen = dict(self.copy_source)
        if len(self.subscribers) != len(self.subscribers_given) or \
                any(a is not b for a, b in zip(self.subscribers, self.subscribers_given)):
            out.append(('subscribers', 'the subscribers list was modified'))
        return out


def run_impl(env, mode, d, size):
    """One transfer on a fresh front-end; returns ('REJECT' | [(op, sorted kwargs)] | 'EXC:<type>', rig)."""
    rig = Rig(env, mode)
    try:
        r = rig.step(mode, dict(d), size)
    finally:
        rig.close()
    return r, rig


def run_sequence(env, steps):
    """Consecutive transfers on ONE front-end object sharing the caller-owned objects.
    steps: [(mode, dict, size, flavour)]; flavour says what the caller passes as extra_args:
      'same'  the one dictionary object the caller keeps re-using (cleared and refilled by the caller),
      'fresh' a new dictionary, 'none' extra_args=None (only for an empty dictionary).
    Returns [(result, [(which, description) of caller objects changed by this transfer])]."""
    rig = Rig(env, steps[0][0])
    shared = {}
    out = []
    try:
        for (mode, d, size, flavour) in steps:
            if flavour == 'same':
                shared.clear()
                shared.update(d)
                extra = shared
            elif flavour == 'none' and not d:
                extra = None
            else:
                extra = dict(d)
            before_shared = dict(shared)
            before_extra = dict(extra) if extra is not None else None
            r = rig.step(mode, extra, size)
            changed = rig.caller_objects_changed()
            if extra is not None and extra != before_extra:
                changed.append(('extra_args', f'{before_extra} became {extra}'))
            if shared != before_shared and extra is not shared:
                changed.append(('extra_args(previous transfer)', f'{before_shared} became {shared}'))
            out.append((r, changed))      # nothing is restored: a leak must show in the next transfer
    finally:
        rig.close()
    return out


# ------------------------------------------------------------------ the model side

def b01(b):
    return '1' if b else '0'


def model_line(mode, d, size):
    n = -(-size // CHUNK) if is_multi(mode) else 0
    toks = ['route', mode[0]] + [b01(b) for b in mode[1:]] + [str(n)]
    toks += [f'{k}={v[1:]}' for k, v in d.items()]
    return ' '.join(toks)


def canon_model(out):
    if out == 'REJECT' or out.startswith('ERR'):
        return out
    calls = []
    for c in out.split('|'):
        m = re.fullmatch(r'(\w+)\((.*)\)', c)
        kw = []
        for item in (m.group(2).split(',') if m.group(2) else []):
            k, v = item.split('=', 1)
            kw.append((k, v))
        calls.append((m.group(1), sorted(kw)))
    return calls


# ------------------------------------------------------------------ search oracle (implementation alone)

def is_full_checksum_name(a):
    return a.startswith('Checksum') and a != 'ChecksumType' and a in shapes()['CompleteMultipartUpload']


def oracle(mode, d, result):
    """C15 stated on the recorded calls.  Returns [(signature, description)]."""
    fe, mn = fe_name(mode), mode_name(mode)
    allowed = allowed_of(mode)
    sh = shapes()
    fails = []

    def bad(op, arg, kind, what):
        fails.append((f'route:{fe}:{mn}:{op}:{arg}:{kind}', what))

    outside = [a for a in d if a not in allowed]
    if isinstance(result, str):
        if result == 'REJECT':
            if not outside:
                bad('-', next(iter(d), '-'), 'rejected-allowed', f'{fe} {mn}: a dictionary of allowed names {list(d)} was rejected')
        elif result == 'REJECT-AFTER-REQUESTS':
            bad('-', outside[0] if outside else '-', 'rejected-after-requests',
                f'{fe} {mn}: {list(d)} was rejected only after requests had been made')
        else:
            bad('-', '-', 'exception', f'{fe} {mn}: {list(d)} ended with {result}')
        return fails
    if outside:
        bad('-', outside[0], 'not-rejected',
            f'{fe} {mn}: name {outside[0]!r} is outside the allow-list but {len(result)} requests were made')
        return fails
    ids = {v[1:]: a for a, v in d.items()}          # value id -> user's name
    fulls = [a for a in d if is_full_checksum_name(a)]
    upload_mp = mode[0] == 'tmup' and mode[2]
    for op, kwl in result:
        kw = dict(kwl)
        shape = sh.get(op, set())
        copy_head = mode[0] == 'tmcp' and op == 'HeadObject'

        def target(a):
            return a[len('CopySource'):] if copy_head and a.startswith('CopySource') else a
        # (1) nothing unknown to the operation
        for name in kw:
            if name not in shape:
                bad(op, name, 'unknown', f'{fe} {mn}: {op} was sent {name}, which its input shape does not have '
                                         f'(user arguments {list(d)})')
        # (2) every accepted user argument is there, with the user's value
        for a, v in d.items():
            t = target(a)
            want = 'U:' + v[1:]
            if t not in shape:
                continue
            if copy_head and a in SSEC:
                if kw.get(a) == want:
                    bad(op, a, 'destination-key-to-source', f'{fe} {mn}: the destination SSE-C argument {a} was sent to the source HeadObject')
                continue
            if op == 'UploadPart' and is_full_checksum_name(a):
                if t in kw:
                    bad(op, a, 'full-object-checksum-to-part', f'{fe} {mn}: full-object checksum {a} was sent to UploadPart')
                continue
            if upload_mp and fulls and a == 'ChecksumType':
                want = 'L:FULL_OBJECT'
            if upload_mp and fulls and a == 'ChecksumAlgorithm':
                want = None
                if kw.get(t) not in ['L:' + c[len('Checksum'):] for c in fulls]:
                    bad(op, a, 'algorithm-not-matching', f'{fe} {mn}: {op} got ChecksumAlgorithm={kw.get(t)} with checksums {fulls}')
                continue
            if t not in kw:
                bad(op, a, 'missing', f'{fe} {mn}: {op} accepts {t} but did not receive the user\'s {a} '
                                      f'(user arguments {list(d)})')
            elif kw[t] != want:
                bad(op, a, 'modified', f'{fe} {mn}: {op} received {t}={kw[t]} instead of the user\'s value {want}')
        # (3) user values only under their own / mapped name; (5) library literals are the itemised ones
        for name, val in kw.items():
            if val.startswith('U:'):
                a = ids.get(val[2:])
                if a is None or target(a) != name:
                    bad(op, name, 'misrouted', f'{fe} {mn}: {op} received {name}={val}, ' +
                        (f'the value of {a}' if a is not None else
                         f'a user value that is not in this transfer\'s extra_args {list(d)}'))
            elif name == 'CopySource' and val != 'P':
                bad(op, name, 'copy-source-modified',
                    f'{fe} {mn}: the CopySource value passed to {op} is not the caller\'s (keys {val[len("L:CopySource"):]}; '
                    f'user arguments {list(d)})')
            elif val.startswith('L:'):
                ok = False
                if upload_mp and fulls and name == 'ChecksumType' and val == 'L:FULL_OBJECT':
                    ok = True
                if upload_mp and fulls and name == 'ChecksumAlgorithm' and val in ['L:' + c[8:] for c in fulls]:
                    ok = True
                if mode[0] == 'tmup' and mode[1] and not fulls and 'ChecksumAlgorithm' not in d \
                        and name == 'ChecksumAlgorithm' and val == 'L:CRC32':
                    ok = True
                if not ok:
                    bad(op, name, 'unexpected-literal', f'{fe} {mn}: {op} received the library value {name}={val[2:]} '
                                                        f'(user arguments {list(d)})')
        # (6) additions the statement requires
        if upload_mp and fulls:
            if 'ChecksumType' in shape and kw.get('ChecksumType') != 'L:FULL_OBJECT':
                bad(op, 'ChecksumType', 'full-object-type-missing', f'{fe} {mn}: {op} lacks ChecksumType=FULL_OBJECT with {fulls}')
            if 'ChecksumAlgorithm' in shape and kw.get('ChecksumAlgorithm') not in ['L:' + c[8:] for c in fulls]:
                bad(op, 'ChecksumAlgorithm', 'full-object-algorithm-missing', f'{fe} {mn}: {op} lacks the matching ChecksumAlgorithm with {fulls}')
        if mode[0] == 'tmup' and mode[1] and not fulls and 'ChecksumAlgorithm' not in d \
                and 'ChecksumAlgorithm' in shape and kw.get('ChecksumAlgorithm') != 'L:CRC32':
            bad(op, 'ChecksumAlgorithm', 'default-missing', f'{fe} {mn}: client asks for checksums but {op} got '
                                                           f'ChecksumAlgorithm={kw.get("ChecksumAlgorithm")}, not CRC32')
    return fails


# ------------------------------------------------------------------ cases

def gen_cases(ctx):
    """[(stream, mode, dict, size)] -- deterministic for a seed."""
    cases = []
    nid = [0]

    def fresh():
        nid[0] += 1
        return uval(nid[0])

    def size_for(mode, j=0):
        return (5 + j % 4) if is_multi(mode) else (1 + j % 3)

    modes = all_modes()
    # A. every cell: empty dictionary and every allowed name alone
    for mode in modes:
        cases.append(('cell', mode, {}, size_for(mode)))
        for j, a in enumerate(allowed_of(mode)):
            cases.append(('cell', mode, {a: fresh()}, size_for(mode, j)))
    # A'. every allowed name alone with a value that tests false
    for mode in modes:
        for j, a in enumerate(allowed_of(mode)):
            if ctx.thorough() or j % 2 == 0 or a.startswith('CopySource'):
                cases.append(('falsy', mode, {a: FalsyStr(fresh())}, size_for(mode, j)))
    # B. all ordered pairs (thorough: and triples) around the checksum names, every upload mode
    from s3transfer.constants import FULL_OBJECT_CHECKSUM_ARGS
    ck = ['ChecksumAlgorithm', 'ChecksumType', 'MpuObjectSize'] + list(FULL_OBJECT_CHECKSUM_ARGS)
    for mode in [m for m in modes if m[0] == 'tmup']:
        for x in ck:
            for y in ck:
                if x != y:
                    cases.append(('pairs', mode, {x: fresh(), y: fresh()}, size_for(mode)))
        if ctx.thorough():
            for x in ck:
                for y in ck:
                    for z in ck:
                        if len({x, y, z}) == 3:
                            cases.append(('triples', mode, {x: fresh(), y: fresh(), z: fresh()}, size_for(mode)))
    # pairs around the copy-source / SSE-C names of a copy whose size is discovered
    cpn = ['CopySourceSSECustomerKey', 'SSECustomerKey', 'CopySourceSSECustomerAlgorithm',
           'SSECustomerAlgorithm', 'CopySourceIfMatch', 'RequestPayer', 'ExpectedBucketOwner',
           'ChecksumAlgorithm', 'MetadataDirective']
    for mode in [m for m in modes if m[0] == 'tmcp' and not m[1]]:
        for x in cpn:
            for y in cpn:
                if x < y:
                    cases.append(('pairs', mode, {x: fresh(), y: fresh()}, size_for(mode)))
    # C. random subsets
    rng = ctx.rng('subsets')
    per_mode = 200 if ctx.thorough() else 8
    for mode in modes:
        al = allowed_of(mode)
        for j in range(per_mode):
            k = rng.choice([2, 3, 5, len(al) // 2, len(al)])
            names = rng.sample(al, min(k, len(al)))
            cases.append(('subsets', mode, {a: fresh() for a in names}, size_for(mode, j)))
    # D. malformed: names outside the allow-list, alone and after / before allowed ones
    union = []
    for mode in modes:
        for a in allowed_of(mode):
            if a not in union:
                union.append(a)
    junk = ['GrantWriteACL', 'Range', 'Bucket', 'Key', 'Body', 'UploadId', 'PartNumber', 'CopySource',
            'CopySourceRange', 'MultipartUpload', 'checksumalgorithm', 'IfMatch', 'ContentMD5',
            'ExpectedSourceBucketOwner', 'ChecksumSHA512', 'X']
    for mode in modes:
        al = allowed_of(mode)
        bads = [a for a in union if a not in al] + junk
        if not ctx.thorough():
            bads = bads[::3] + junk[:4]
        for j, bname in enumerate(bads):
            if bname in al:
                continue
            cases.append(('malformed', mode, {bname: fresh()}, size_for(mode)))
            good = al[j % len(al)]
            if j % 2:
                cases.append(('malformed', mode, {good: fresh(), bname: fresh()}, size_for(mode)))
            else:
                cases.append(('malformed', mode, {bname: fresh(), good: fresh()}, size_for(mode)))
    return cases


def gen_sequences(ctx):
    """Consecutive transfers on one front-end object that share the caller-owned objects:
    [[(mode, dict, size, flavour), ...]].  The first transfer carries one allowed argument,
    the second none (same dictionary object cleared by the caller / a fresh {} / None); three-step
    sequences add a transfer with another argument."""
    seqs = []
    nid = [0x10000]

    def fresh():
        nid[0] += 1
        return uval(nid[0])

    def sz(mode, j=0):
        return (5 + j % 4) if is_multi(mode) else (1 + j % 3)

    flav = ['same', 'fresh', 'none']
    B = (False, True)
    fams = []      # (first modes, second-transfer mode as a function of the first and a counter)
    for ws in B:
        fams.append(([('tmup', ws, mp) for mp in B], lambda m, j: ('tmup', m[1], bool(j % 2))))
    fams.append(([('tmdl', kn, rg) for kn in B for rg in B], lambda m, j: ('tmdl', False, bool(j % 2))))
    for sv in B:
        fams.append(([('tmcp', kn, mp, sv) for kn in B for mp in B],
                     lambda m, j: ('tmcp', False, bool(j % 2), m[3])))       # size discovered: HeadObject is issued
    fams.append(([('tmdel',)], lambda m, j: ('tmdel',)))
    fams.append(([('legup', mp) for mp in B], lambda m, j: ('legup', bool(j % 2))))
    fams.append(([('legdl', rg) for rg in B], lambda m, j: ('legdl', bool(j % 2))))
    fams.append(([('pool', kn, rg) for kn in B for rg in B], lambda m, j: ('pool', False, bool(j % 2))))
    j = 0
    for firsts, second in fams:
        for m1 in firsts:
            al = allowed_of(m1)
            for a in al:
                j += 1
                m2 = second(m1, j)
                seqs.append([(m1, {a: fresh()}, sz(m1, j), 'same'),
                             (m2, {}, sz(m2, j), flav[j % 3])])
            # three transfers: argument, nothing, another argument -- for the names with an interaction
            special = [a for a in al if a.startswith('CopySource') or a.startswith('Checksum')
                       or a in ('RequestPayer', 'ExpectedBucketOwner', 'MpuObjectSize', 'VersionId')]
            for a in special:
                j += 1
                b = special[(special.index(a) + 1) % len(special)]
                m2, m3 = second(m1, j), second(m1, j + 1)
                seqs.append([(m1, {a: fresh()}, sz(m1, j), 'same'),
                             (m2, {}, sz(m2, j), flav[j % 3]),
                             (m3, {b: fresh()}, sz(m3, j), 'same')])
    return seqs


def seq_desc(steps):
    return '>'.join(f"{mode_name(m)}({'+'.join(d)})" for (m, d, _s, _f) in steps)


def seq_json(steps):
    return {'sequence': [{'mode': list(m), 'dict': dict(d), 'size': s, 'extra_args_object': f,
                          'front_end': fe_name(m), 'mode_name': mode_name(m)} for (m, d, s, f) in steps],
            'shared': 'one front-end object, one client; the copy_source dictionary and the subscribers list are the '
                      'same objects in every transfer; extra_args_object: same = the caller re-uses one dictionary object'}


def check_sequence(ctx, env, steps, with_model=True):
    """Run one sequence; oracle on every transfer with ITS OWN dictionary, caller objects unchanged.
    Returns (results, [(signature, what)])."""
    out = run_sequence(env, steps)
    fe = fe_name(steps[0][0])
    desc = seq_desc(steps)
    fails = []
    for i, ((mode, d, size, _fl), (r, changed)) in enumerate(zip(steps, out)):
        for which, what in changed:
            fails.append((f'route-seq:{fe}:{desc}:step{i + 1}:caller-object-mutated:{which}',
                          f'{fe}: transfer {i + 1} of the sequence {desc} modified the caller\'s {which}: {what}'))
        step_fails = oracle(mode, d, r)
        if step_fails and i > 0:
            alone, _rig = run_impl(env, mode, d, size)
            alone_sigs = {sig for sig, _ in oracle(mode, d, alone)}
        else:
            alone_sigs = None
        for sig, what in step_fails:
            if alone_sigs is None or sig in alone_sigs:
                fails.append((sig, what))            # not specific to the sequence: the single-transfer cell
            else:
                tail = ':'.join(sig.split(':')[3:])
                fails.append((f'route-seq:{fe}:{desc}:step{i + 1}:{tail}',
                              f'{fe}: in the sequence {desc} on one manager sharing the caller\'s objects, transfer {i + 1} '
                              f'(extra_args {dict(d)}) made the calls {show(r)} -- {what}; the same transfer alone does not'))
    return [r for r, _ in out], fails


def case_json(mode, d, size):
    return {'mode': list(mode), 'dict': dict(d), 'size': size,
            'front_end': fe_name(mode), 'mode_name': mode_name(mode)}


# ------------------------------------------------------------------ run / replay

def abort_path(ctx, env):
    """The clean-up request of a FAILED multipart upload / copy: with every allowed argument (alone
    and all together) the first part request is made to fail; the AbortMultipartUpload that follows
    must carry only parameters the operation has (the fake S3 refuses anything else client-side, as
    botocore does) -- otherwise the abort never reaches the service and the upload stays open."""
    from harness.fakes3 import FakeFault, input_members
    members = input_members('AbortMultipartUpload')
    for mode in [m for m in all_modes() if m[0] in ('tmup', 'tmcp') and is_multi(m)]:
        al = allowed_of(mode)
        sets = [{}] + [{a: uval(3 + j)} for j, a in enumerate(al)] + [{a: uval(40 + j) for j, a in enumerate(al)}]
        if not ctx.thorough():
            sets = sets[:1] + sets[1:-1][::2] + sets[-1:]
        for d in sets:
            rig = Rig(env, mode)
            try:
                rig.client.fault = lambda rec, when: (FakeFault('part') if when == 'before' and rec['op'] in
                                                      ('UploadPart', 'UploadPartCopy') else None)
                n0 = len(rig.client.log)
                r = rig.step(mode, dict(d), 6)
                calls = rig.client.log[n0:]
                rej = [x for x in rig.client.rejected_params]
                aborts = [c for c in calls if c['op'] == 'AbortMultipartUpload']
                created = [c for c in calls if c['op'] == 'CreateMultipartUpload' and c.get('outcome') == 'ok']
                ctx.count('route-abort-path', 1, nontrivial_key=(mode, tuple(sorted(d))), method=mode[0], names=len(d))
                why = None
                if rej:
                    why = (f'{rej[0][0]} was called with parameter(s) {rej[0][1]} it does not have: the call is refused before it is '
                           f'sent' + (' and the multipart upload is left open' if rej[0][0] == 'AbortMultipartUpload' else ''))
                elif created and not aborts:
                    why = f'the multipart upload was created and a part failed, but no AbortMultipartUpload was issued (result {show(r)[:80]})'
                else:
                    for c in aborts:
                        extra_ = sorted(set(c['kwargs']) - members)
                        if extra_:
                            why = f'AbortMultipartUpload carried {extra_}, not members of its input shape'
                if why:
                    ctx.report(f'abort-path:{mode[0]}:{",".join(sorted(d))[:60]}',
                               f'{mode[0]} multipart with extra_args {sorted(d)} and a failing part: {why}',
                               {'kind': 'input', 'component': 'route-abort-path', 'case': {'mode': list(mode), 'extra_args': d}})
            finally:
                rig.close()


def run(ctx):
    ok = common.proofs(ctx, 'C15', EXTRACT, COMPONENTS)
    ctx.trusted = list(ctx.trusted) + [
        'translator harness/gen_shapes.py (installed botocore S3 service model -> coq/gen/Shapes.v, fail-closed)',
        'harness/fakes3.py recording client; botocore itself (request serialisation) is not exercised']
    ctx.assumptions = [
        'the parameter names an S3 operation accepts are the members of its input shape in the INSTALLED botocore (regenerated on every run)',
        'extra-argument VALUES are opaque to s3transfer (the model carries value ids); string values are used so that ChecksumAlgorithm.upper() works',
        'AbortMultipartUpload is a failure cleanup with Bucket/Key/UploadId only and is outside the table (DESIGN.md 5.C15)',
        'process pool: download_file, GetObjectSubmitter and GetObjectWorker are the real classes, run in-process over queue.Queue instead of in child processes',
        'the extracted OCaml model and its line driver are trusted for the correspondence only',
    ]
    ctx.cov['rule'] = ('cells: every (front-end, method, single/multipart/ranged, size known/discovered, copy source with/without '
                       'VersionId, client checksum mode) x (empty dictionary + every name of the implementation\'s allow-list alone); '
                       'pairs: all ordered pairs (thorough: triples) of the checksum-related upload names and pairs of copy-source/SSE-C names; '
                       'subsets: random subsets of each allow-list; malformed: names outside the allow-list alone and mixed with an allowed one. '
                       'Each case runs the real code on a recording client and the extracted model; compared: operation sequence and the exact '
                       'keyword arguments (names, user value ids, library literals) of every call. A case is distinct/non-trivial by its model command '
                       'line (mode, part count, dictionary); the empty dictionaries are counted as trivial. '
                       'sequences: two (and three) consecutive transfers on ONE front-end object that share the caller-owned copy_source '
                       'dictionary, subscribers list and (re-used) extra_args dictionary object -- first transfer with each allowed name, '
                       'second with no argument; every transfer is compared with the model\'s routing of its own dictionary, the CopySource '
                       'value must be the caller\'s, the caller\'s objects must be unchanged; distinct by the tuple of model command lines.')
    cases = gen_cases(ctx)
    seqs = gen_sequences(ctx)
    results, seq_results, seq_fails = [], [], []
    with Env() as env:
        for (stream, mode, d, size) in cases:
            r, _rig = run_impl(env, mode, d, size)
            results.append(r)
        for steps in seqs:
            rs, fails = check_sequence(ctx, env, steps)
            seq_results.append(rs)
            seq_fails.append(fails)
        abort_path(ctx, env)
    # search oracle on everything (cheap; needs no model)
    extra = {'broken': ctx.broken.what} if ctx.broken is not None else {}
    flagged, flagged_seq = set(), set()
    single_reports, seq_reports = [], []
    for idx, ((stream, mode, d, size), r) in enumerate(zip(cases, results)):
        for sig, what in oracle(mode, d, r):
            flagged.add(idx)
            single_reports.append((sig, what, {'kind': 'input', 'component': 'route', 'case': case_json(mode, d, size),
                                               'recorded_calls': show(r), **extra}))
    for idx, (steps, rs, fails) in enumerate(zip(seqs, seq_results, seq_fails)):
        for sig, what in fails:
            flagged_seq.add(idx)
            rep = (sig, what, {'kind': 'history', 'component': 'route-seq', 'case': seq_json(steps),
                               'recorded_calls': [show(r) for r in rs], **extra})
            (seq_reports if sig.startswith('route-seq:') else single_reports).append(rep)
    known = {k.get('signature') for k in ctx.known if k.get('status') == 'known' and k.get('property') == ctx.prop}
    fresh_single = [x for x in single_reports if x[0] not in known]
    # at most five violations are printed: make room for both kinds
    for sig, what, rep in ([x for x in single_reports if x[0] in known] + fresh_single[:3] + seq_reports[:2]
                           + fresh_single[3:] + seq_reports[2:]):
        ctx.report(sig, what, rep)
    if ctx.broken is not None:
        # proof / build / translator broke: the oracle above was the search
        if not ctx.violations:
            ctx.report('broken:' + ctx.broken.what, ctx.broken.what,
                       {'kind': 'theorem', 'theorem_or_correspondence': ctx.broken.what, 'log': ctx.broken.log},
                       no_input=True)
        count_only(ctx, cases, results)
        return
    # correspondence: single transfers
    lines = [model_line(mode, d, size) for (_s, mode, d, size) in cases]
    seq_lines = [[model_line(mode, d, size) for (mode, d, size, _f) in steps] for steps in seqs]
    model = common.run_model('route', lines + [l for ls in seq_lines for l in ls])
    mism = 0
    for idx, ((stream, mode, d, size), r, line, mo) in enumerate(zip(cases, results, lines, model)):
        cm = canon_model(mo)
        same = (r == cm)
        ctx.count('route', 1, nontrivial_key=(line if d else None), stream=stream,
                  front_end=fe_name(mode), mode=mode_name(mode),
                  outcome='reject' if r == 'REJECT' else ('calls' if not isinstance(r, str) else 'other'))
        if not same:
            mism += 1
            if idx not in flagged:
                ctx.report(f'corr:route:{fe_name(mode)}:{mode_name(mode)}',
                           f'model and implementation disagree on the routing of {list(d)} in {fe_name(mode)} {mode_name(mode)}: '
                           f'impl={show(r)} model={show(cm)}',
                           {'kind': 'correspondence', 'theorem_or_correspondence': 'differential route',
                            'case': case_json(mode, d, size), 'impl': show(r), 'model': show(cm)}, no_input=True)
    ctx.cov['components']['route']['mismatches'] = mism
    # correspondence: every transfer of every sequence against the model's routing of ITS OWN dictionary
    # (route has no other input: no state is carried from one transfer to the next)
    pos = len(lines)
    smism = 0
    for idx, (steps, rs, ls) in enumerate(zip(seqs, seq_results, seq_lines)):
        ms = [canon_model(mo) for mo in model[pos:pos + len(ls)]]
        pos += len(ls)
        ctx.count('route-seq', 1, nontrivial_key=tuple(ls), transfers=len(steps), front_end=fe_name(steps[0][0]))
        ctx.cov['evaluations'] += len(steps) - 1          # every transfer of the sequence was run and compared
        for i, (r, cm) in enumerate(zip(rs, ms)):
            if r != cm:
                smism += 1
                if idx not in flagged_seq:
                    ctx.report(f'corr:route-seq:{fe_name(steps[0][0])}:{seq_desc(steps)}:step{i + 1}',
                               f'model and implementation disagree on transfer {i + 1} of the sequence {seq_desc(steps)}: '
                               f'impl={show(r)} model={show(cm)}',
                               {'kind': 'correspondence', 'theorem_or_correspondence': 'differential route (sequence)',
                                'case': seq_json(steps), 'impl': show(r), 'model': show(cm)}, no_input=True)
    ctx.cov['components']['route-seq']['mismatches'] = smism
    ctx.cov['sequences'] = len(seqs)
    ctx.cov['cells'] = sum(1 for c in cases if c[0] == 'cell')
    ctx.cov['exhaustive'] = True
    ctx.cov['exhaustive_over'] = ('the cell stream (every mode x every allowed name alone) and the two-transfer sequences '
                                  '(every first mode x every allowed name, then an empty dictionary); '
                                  'pairs/subsets/malformed/three-transfer sequences are samples')
    for stream in ('cell', 'pairs', 'subsets', 'malformed'):
        for (s, mode, d, size), r, line in zip(cases, results, lines):
            if s == stream and d and (stream != 'cell' or is_multi(mode)):
                ctx.sample({'component': 'route-' + stream, 'model_cmd': line, 'impl_and_model_calls': show(r)}, limit=1)
                break
    for steps, rs, ls in zip(seqs, seq_results, seq_lines):
        if steps[0][0][0] == 'tmcp' and 'CopySourceIfMatch' in steps[0][1]:
            ctx.sample({'component': 'route-seq', 'model_cmds': ls, 'impl_and_model_calls': [show(r) for r in rs]}, limit=1)
            break


def count_only(ctx, cases, results):
    for (stream, mode, d, size), r in zip(cases, results):
        ctx.count('route-oracle-only', 1, nontrivial_key=(repr((mode, sorted(d))) if d else None), stream=stream)
    ctx.sample({'component': 'route-oracle-only', 'case': case_json(*cases[1][1:]), 'recorded_calls': show(results[1])})


def replay(ctx, data):
    case = data.get('case') or {}
    if data.get('component') == 'route-abort-path':
        n0 = len(ctx.violations)
        with Env() as env:
            abort_path(ctx, env)
        return len(ctx.violations) > n0
    if isinstance(case, dict) and 'sequence' in case:
        steps = [(tuple(st['mode']), dict(st['dict']), int(st['size']), st.get('extra_args_object', 'same'))
                 for st in case['sequence']]
        with Env() as env:
            rs, fails = check_sequence(ctx, env, steps)
        for i, r in enumerate(rs):
            print(f'transfer {i + 1}:', show(r))
        for sig, what in fails:
            print('oracle:', sig, '--', what)
        want = data.get('signature') or ''
        if want.startswith('route'):
            return any(sig == want for sig, _ in fails)
        return bool(fails)
    if isinstance(case, dict) and 'mode' in case and 'dict' in case:
        mode = tuple(case['mode'])
        d = dict(case['dict'])
        with Env() as env:
            r, _ = run_impl(env, mode, d, int(case.get('size', 5 if is_multi(mode) else 1)))
        fails = oracle(mode, d, r)
        print('recorded:', show(r))
        for sig, what in fails:
            print('oracle:', sig, '--', what)
        want = data.get('signature') or ''
        if want.startswith('route:'):
            return any(sig == want for sig, _ in fails)
        if want.startswith('corr:'):
            # a correspondence replay: model against implementation on this one case
            if not common.proofs(ctx, 'C15', EXTRACT, COMPONENTS):
                print('build broken:', ctx.broken.what)
                return True
            cm = canon_model(common.run_model('route', [model_line(mode, d, int(case.get('size', 1)))])[0])
            print('model:   ', show(cm))
            return cm != r or bool(fails)
        return bool(fails)
    run(ctx)
    return bool(ctx.violations)
