"""C08: the waiting loop of a failed submission task against coq/model/WaitLoop.v.

A real SubmissionTask (public constructor, a `_submit` that associates the
initial futures and then raises) is called on a real TransferCoordinator whose
public `associated_futures` property is observed.  The futures are scripted:
being waited on (result()) completes a future, which associates its children
and removes itself at once or only after the waiter's next look; other futures
complete on their own before / after each look.  What the real loop was seen
doing -- the set of futures waited on per round, and which futures were still
running when done was announced -- is handed to the model, evaluated inside Coq
(one coqc call, vm_compute) on the same script; the oracle judges the
implementation alone: nothing may be running when done is announced."""
import os
import re
import shutil
import tempfile

from harness import common

THM = 'WaitLoop.run vs SubmissionTask waiting for its associated futures'


def gen_cases(ctx):
    rng = ctx.rng('c08wait')
    out = []
    # hand-written shapes first: a child handed over during the wait, with the parent's removal running late
    out.append(dict(n=2, init=[0], kids={0: [1]}, lag=[0], pre=[], bg=[], raises=[]))
    out.append(dict(n=3, init=[0], kids={0: [1], 1: [2]}, lag=[0, 1], pre=[], bg=[], raises=[1]))
    out.append(dict(n=3, init=[0, 1], kids={1: [2]}, lag=[], pre=[0], bg=[[[], [2]]], raises=[]))
    out.append(dict(n=1, init=[0], kids={}, lag=[], pre=[0], bg=[], raises=[]))
    n_cases = 1500 if ctx.thorough() else 300
    for _ in range(n_cases):
        n = rng.randrange(1, 9)
        k = rng.randrange(1, min(n, 3) + 1)
        kids = {}
        for c in range(k, n):
            kids.setdefault(rng.randrange(0, c), []).append(c)
        lag = [i for i in range(n) if rng.random() < 0.4]
        pre = [i for i in range(k) if rng.random() < 0.25]
        bg = [[[i for i in range(n) if rng.random() < 0.15], [i for i in range(n) if rng.random() < 0.15]]
              for _ in range(rng.randrange(0, 4))]
        raises = [i for i in range(n) if rng.random() < 0.2]
        out.append(dict(n=n, init=list(range(k)), kids=kids, lag=lag, pre=pre, bg=bg, raises=raises))
    return out


class Boom(Exception):
    pass


def run_impl(c):
    """-> (rounds, pending at announce, announced?)"""
    from s3transfer import futures, tasks
    kids = {int(k): v for k, v in c['kids'].items()}
    state = dict(reads=0, rounds=[], cur=[], done=set(), lagged=[], added=set(), pending=None, in_wait=False)
    futs = {}

    class Fut:
        def __init__(self, i):
            self.i = i

        def result(self, timeout=None):
            state['cur'].append(self.i)
            complete(self.i)
            if self.i in c['raises']:
                raise Boom(f'future {self.i} failed')
            return None

        def done(self):
            return self.i in state['done']

        def add_done_callback(self, fn):
            pass

        def __repr__(self):
            return f'<fut {self.i}>'

    def fut(i):
        if i not in futs:
            futs[i] = Fut(i)
        return futs[i]

    def complete(i):
        if i not in state['added'] or i in state['done'] or i in state['removed']:
            return
        for ch in kids.get(i, []):
            state['added'].add(ch)
            co.add_associated_future(fut(ch))
        state['done'].add(i)
        if i in c['lag']:
            state['lagged'].append(i)
        else:
            state['removed'].add(i)
            co.remove_associated_future(fut(i))

    def flush():
        for i in state['lagged']:
            state['removed'].add(i)
            co.remove_associated_future(fut(i))
        state['lagged'] = []
    state['removed'] = set()

    base = futures.TransferCoordinator
    base_prop = base.__dict__.get('associated_futures') if hasattr(base, '__dict__') else None
    if not isinstance(base_prop, property):
        return None

    class Co(base):
        @property
        def associated_futures(self):
            if not state['in_wait']:
                return base_prop.fget(self)
            state['reads'] += 1
            r = state['reads']
            if r == 1:
                for i in c['pre']:
                    complete(i)
            else:
                state['rounds'].append(sorted(state['cur']))
                state['cur'] = []
                b = c['bg'][r - 2] if r - 2 < len(c['bg']) else [[], []]
                for i in b[0]:
                    complete(i)
            got = base_prop.fget(self)
            if r >= 2:
                b = c['bg'][r - 2] if r - 2 < len(c['bg']) else [[], []]
                for i in b[1]:
                    complete(i)
            flush()
            return got

    co = Co(transfer_id=0)

    class Failing(tasks.SubmissionTask):
        def _submit(self, transfer_future, **kw):
            for i in c['init']:
                state['added'].add(i)
                co.add_associated_future(fut(i))
            state['in_wait'] = True
            raise Boom('the submission fails after handing out its first futures')

    def announced():
        state['in_wait'] = False
        if state['pending'] is None:
            state['pending'] = sorted(state['added'] - state['done'])
    co.add_done_callback(announced)
    try:
        from s3transfer.utils import CallArgs
        meta = futures.TransferMeta(CallArgs(subscribers=[]), transfer_id=0)
    except Exception:       # noqa
        meta = futures.TransferMeta(transfer_id=0)
    tf = futures.TransferFuture(meta, co)
    task = Failing(co, main_kwargs={'transfer_future': tf})
    task()
    if state['cur']:
        state['rounds'].append(sorted(state['cur']))
    return state['rounds'], state['pending'], state['pending'] is not None


def coq_nats(l):
    return '[' + '; '.join(str(x) for x in l) + ']'


def coq_case(c, rounds, pending):
    kids = {int(k): v for k, v in c['kids'].items()}
    sc = '[' + '; '.join(f'mkFut {coq_nats(kids.get(i, []))} {"true" if i in c["lag"] else "false"}' for i in range(c['n'])) + ']'
    bg = '[' + '; '.join(f'({coq_nats(b[0])}, {coq_nats(b[1])})' for b in c['bg']) + ']'
    rs = '[' + '; '.join(coq_nats(r) for r in rounds) + ']'
    return f'agrees {sc} {coq_nats(c["init"])} {coq_nats(c["pre"])} {bg} {2 * c["n"] + 6} {rs} {coq_nats(pending)}'


def model_answers(items):
    d = tempfile.mkdtemp(prefix='verif-c08wait-')
    try:
        lines = ['From Coq Require Import List Arith Bool.', 'From S3V Require Import model.WaitLoop.', 'Import ListNotations.',
                 'Definition answers : list bool := [']
        lines.append(';\n'.join('  ' + it for it in items))
        lines += ['].', 'Eval vm_compute in answers.']
        p = os.path.join(d, 'WaitCases.v')
        open(p, 'w').write('\n'.join(lines) + '\n')
        rc, out = common.sh(['timeout', '300', 'coqc', '-Q', common.COQ, 'S3V', p], 320, cwd=d)
        if rc != 0:
            raise common.BuildBroken('coq/model/WaitLoop.v: the generated cases file does not evaluate', out[-2000:])
        return [t == 'true' for t in re.findall(r'\b(true|false)\b', out)]
    finally:
        shutil.rmtree(d, ignore_errors=True)


def oracle(c, res):
    rounds, pending, announced = res
    if not announced:
        return 'the failed submission task never announced the transfer done'
    if pending:
        return (f'done was announced (failure clean-ups and on_done callbacks run) while futures {pending} associated with the '
                f'transfer had not completed; futures waited on per round: {rounds}')
    return None


def check(ctx):
    cs = gen_cases(ctx)
    items, keep = [], []
    for c in cs:
        try:
            res = run_impl(c)
        except Exception as e:      # noqa
            ctx.report('corr:wait-loop:crash', f'the waiting-loop rig raised {e!r} for script {c}',
                       {'kind': 'correspondence', 'theorem_or_correspondence': THM, 'case': {'waitloop': c}}, no_input=True)
            return
        if res is None:
            ctx.report('corr:wait-loop:interface', 'TransferCoordinator.associated_futures is not a property any more: the waiting loop cannot be observed',
                       {'kind': 'correspondence', 'theorem_or_correspondence': THM}, no_input=True)
            return
        ctx.count('wait-loop', 1, nontrivial_key=(c['n'], str(sorted(c['kids'].items())), tuple(c['lag']), tuple(c['pre']), str(c['bg'])),
                  rounds=str(len(res[0])), futures=str(c['n']), late_removals=str(bool(c['lag'])))
        why = oracle(c, res)
        if why:
            ctx.report(f'wait-loop:{c["n"]}:{sorted(c["kids"].items())}:{c["lag"]}',
                       f'failed submission task, scripted futures {c}: {why}',
                       {'kind': 'history', 'component': 'wait-loop', 'case': {'waitloop': c}})
            if len(ctx.violations) >= 5:
                break
            continue
        items.append(coq_case(c, res[0], res[1]))
        keep.append((c, res))
    if not items:
        return
    try:
        ans = model_answers(items)
    except common.BuildBroken as b:
        if ctx.broken is None:
            ctx.broken = b
        return
    if len(ans) != len(items):
        ctx.report('corr:wait-loop:driver', f'{len(ans)} answers for {len(items)} cases from the Coq evaluation',
                   {'kind': 'correspondence', 'theorem_or_correspondence': THM}, no_input=True)
        return
    bad = [(c, res) for (c, res), ok in zip(keep, ans) if not ok]
    for c, res in bad[:2]:
        ctx.report(f'corr:wait-loop:{c["n"]}:{sorted(c["kids"].items())}',
                   f'model WaitLoop.run and the real waiting loop disagree on script {c}: the real loop waited on {res[0]} per round, '
                   f'pending at announce {res[1]} (the oracle does not fail on it)',
                   {'kind': 'correspondence', 'theorem_or_correspondence': THM, 'case': {'waitloop': c}}, no_input=True)
    ctx.cov.setdefault('sub_checks', []).append({'component': 'wait-loop', 'cases': len(items), 'disagreements': len(bad),
                                                 'model_evaluated_by': 'coqc + vm_compute on a generated cases file'})
    ctx.sample({'component': 'wait-loop', 'case': keep[-1][0], 'rounds': keep[-1][1][0], 'pending_at_announce': keep[-1][1][1],
                'model_agrees': ans[-1]})


def replay(ctx, data):
    c = (data.get('case') or {}).get('waitloop')
    if not c:
        return None
    res = run_impl(c)
    why = oracle(c, res) if res else 'not observable'
    print('wait loop:', res, '->', why)
    return why is not None
