"""C13, concurrent tie: 2-4 managed threads on ONE real LeakyBucket.

The sequential differential of c13.py drives the bucket from one thread at a
time, so nothing is ever scheduled between a consumer's entry into consume()
and its critical section.  Here `s3transfer.bandwidth.threading` is replaced
by the cooperative scheduler's shim while the bucket is built, so the bucket's
lock acquisition is a yield point; every thread runs a small program of
(advance the virtual clock by dt, consume amt | read amt through a real
BandwidthLimitedStream) steps, a refused thread sleeps virtually (enabled
again when the clock has passed its retry time, or moved there when nobody
else can run).  Schedules are enumerated exhaustively for the small program
sets and drawn at random / PCT beyond.

Checked on the real objects, in LOCK order, with "now" = the virtual clock at
lock acquisition (what the model reads inside the lock):
  * every clock reading handed to the rate tracker is >= the last recorded one
    (the hypothesis "clock readings do not decrease" of the theorems),
  * the monitors of c13.py (immediate_grant_bound, wait_formula, one_wait,
    under_limit_never_refused),
  * the tracked rate is not inf unless a scheduled release had time delta <= 0
    in lock order (F11's precondition),
and the lock-order linearisation is replayed through the extracted model:
decisions and waits must agree.
"""
from fractions import Fraction

from harness import common
from harness.common import hx
from harness.props import c13

INF = float('inf')


class DfsChooser:
    """replays a prefix of choices, then always the first runnable thread;
    records how many threads were runnable at each step"""

    def __init__(self, prefix):
        self.prefix, self.widths, self.i = list(prefix), [], 0

    def choose(self, sched, runnable):
        self.widths.append(len(runnable))
        c = self.prefix[self.i] if self.i < len(self.prefix) else 0
        self.i += 1
        return min(c, len(runnable) - 1)


def case_str(mx, programs):
    def st(s):
        return f'{s[0]}{s[2]}+{s[1]}'
    return f'max={mx} ' + ' | '.join(f't{i}: ' + ' '.join(st(s) for s in p) for i, p in enumerate(programs))


def run_conc(mx, thr, programs, chooser, max_steps=4000):
    """One scheduled run.  programs: per thread a tuple of steps
    (kind, dt, amt) with kind 'c' (consume on the bucket, retried after the
    virtual sleep) or 'r' (read through the thread's real stream).
    -> dict(viol, ops, outs, choices, schedule, deadlock)"""
    from harness.sched import core
    bw = c13.impl()
    sched = core.Sched(chooser=chooser, max_steps=max_steps)
    shim = core.Shim(sched)
    clock = c13.Clock()
    st = {'lock_time': None, 'last_recorded': None, 'inf_legit': False}
    viol = []
    ops, outs, schedule = [], [], []
    sleepers = {}

    def add_viol(clause, text):
        if clause not in [c for c, _ in viol]:
            viol.append((clause, text))

    class LLock:
        def __init__(self_):
            self_._l = shim.Lock()

        def acquire(self_, *a, **k):
            r = self_._l.acquire(*a, **k)
            if r:
                st['lock_time'] = clock.now
            return r

        def release(self_):
            self_._l.release()

        def locked(self_):
            return self_._l.locked()

        @property
        def owner(self_):
            return self_._l.owner

        def __enter__(self_):
            self_.acquire()
            return self_

        def __exit__(self_, *a):
            self_.release()

    class NS:
        pass
    ns = NS()
    ns.__dict__.update(shim.__dict__)
    ns.Lock = LLock

    class Tracker:
        """forwards to the real BandwidthRateTracker; looks at the clock
        readings it is handed"""

        def __init__(self_, real):
            self_.real = real

        @property
        def current_rate(self_):
            return self_.real.current_rate

        def _see(self_, t, what):
            t = Fraction(t)
            if st['last_recorded'] is not None and t < st['last_recorded']:
                add_viol('time-order',
                         f'a consumption was {what} with clock reading {float(t)} after one was recorded at '
                         f'{float(st["last_recorded"])} (virtual clock at its lock acquisition: '
                         f'{float(st["lock_time"]) if st["lock_time"] is not None else "?"}): clock readings '
                         f'reach the rate tracker out of lock order')

        def get_projected_rate(self_, amt, t):
            self_._see(t, 'judged')
            return self_.real.get_projected_rate(amt, t)

        def record_consumption_rate(self_, amt, t):
            self_._see(t, 'recorded')
            self_.real.record_consumption_rate(amt, t)
            st['last_recorded'] = Fraction(t)

    class VTime:
        def time(self_):
            return clock.time()

        def sleep(self_, w):
            vsleep(w)

    def vsleep(w):
        me = sched.me()
        wake = clock.now + Fraction(w)
        sleepers[me.name] = wake
        sched.block_until(
            lambda: clock.now >= wake or (sched.others_idle(me) and wake <= min(sleepers.values())),
            'virtual sleep')
        del sleepers[me.name]
        if clock.now < wake:
            clock.set(wake)

    class LockedOnly:
        """Stands where the bucket keeps its consumption scheduler (passed through the public
        constructor argument): every call must come from the thread that holds the bucket's lock --
        the queue of refused requests and the accumulated wait are shared by all streams (lockset
        check: a violation needs no particular interleaving to be seen)."""

        def __init__(self_, inner):
            self_.__dict__['_inner'] = inner

        def __getattr__(self_, name):
            v = getattr(self_.__dict__['_inner'], name)
            if not callable(v):
                return v

            def call(*a, **k):
                lk = st.get('bucket_lock')
                if lk is not None and getattr(lk, 'owner', None) is not sched.me():
                    add_viol('unlocked-scheduler', f'ConsumptionScheduler.{name} called by {sched.me().name} without holding the '
                                                   f'bucket lock (owner: {getattr(getattr(lk, "owner", None), "name", None)}): the queue of '
                                                   'scheduled requests and the accumulated wait are shared state')
                return v(*a, **k)
            return call

    old = bw.threading
    bw.threading = ns
    try:
        tracker = Tracker(bw.BandwidthRateTracker())
        try:
            real = bw.LeakyBucket(mx, time_utils=VTime(), rate_tracker=tracker,
                                  consumption_scheduler=LockedOnly(bw.ConsumptionScheduler()))
        except TypeError:       # the constructor no longer takes the scheduler: run without the lockset check
            real = bw.LeakyBucket(mx, time_utils=VTime(), rate_tracker=tracker)
    finally:
        bw.threading = old
    from harness import names as _names
    lk_name = _names.find_attr(real, lambda v: hasattr(v, 'owner') and hasattr(v, 'acquire'), '_lock')
    st['bucket_lock'] = getattr(real, lk_name, None)
    mon = c13.Monitor(mx, clock)

    class Bucket:
        """where the bucket stands for the threads and their streams"""

        def consume(self_, amt, token):
            key = int(sched.me().name[1:]) + 1
            try:
                r = real.consume(amt, token)
                granted, wait = True, None
            except bw.RequestExceededException as e:
                granted, wait, exc = False, e.retry_time, e
            # still the same scheduling step as the critical section: clock.now is the lock time
            t = st['lock_time']
            if granted and key in mon.outstanding and mon.last_grant is not None and t <= mon.last_grant:
                st['inf_legit'] = True          # scheduled release with time delta <= 0 in lock order (F11)
            mon.on_consume(key, amt, granted, wait)
            ops.append(('c', amt, key, t))
            outs.append('G' if granted else ('R', Fraction(wait)))
            schedule.append(f't{key - 1}:c{amt}@{c13.fq(t)}->' + ('G' if granted else 'R'))
            if tracker.current_rate == INF and not st['inf_legit']:
                add_viol('inf-rate', f'the tracked rate became inf at lock time {float(t)} although no scheduled '
                                     f'release had a time delta <= 0 in lock order: every later request is refused once')
            if mon.fail:
                add_viol(mon.fail[0], mon.fail[1])
            if not granted:
                raise exc
            return r

        def cancel(self_, token):
            key = int(sched.me().name[1:]) + 1
            mon.on_cancel(key)
            ops.append(('x', key))
            outs.append('X')
            return real.cancel(token)

    bucket = Bucket()

    def body(i, prog):
        def run():
            token = bw.RequestToken()
            stream = bw.BandwidthLimitedStream(c13.Body(), bucket, c13.Coord(), VTime(), bytes_threshold=thr)
            for (kind, dt, amt) in prog:
                clock.set(clock.now + dt)
                if kind == 'c':
                    while True:
                        try:
                            bucket.consume(amt, token)
                            break
                        except bw.RequestExceededException as e:
                            vsleep(e.retry_time)
                else:
                    stream.read(amt)
        return run

    for i, prog in enumerate(programs):
        sched.spawn(body(i, prog), f't{i}')
    deadlock = None
    try:
        sched.run()
    except core.Deadlock as d:
        deadlock = 'deadlock: ' + str(d)
    except core.Livelock as d:
        deadlock = 'livelock: ' + str(d)
    if deadlock:
        add_viol('stuck', deadlock)
    for th in sched.threads:
        if th.exc is not None:
            add_viol('thread-exception', f'{th.name}: {th.exc!r}')
    return {'viol': viol, 'ops': ops, 'outs': outs, 'choices': list(sched.choices), 'schedule': schedule,
            'steps': sched.step}


# ---------------------------------------------------------------- program sets

H = Fraction(1, 2)
Q16 = Fraction(1, 16)

SMALL_SETS = [
    # (max, stream threshold, programs)
    # far below the limit: nobody may ever be refused (64 B per >= 1 s at 1024 B/s)
    (1024, 16, ((('c', 1, 64), ('c', 1, 64)), (('c', 1, 64), ('c', 1, 64)))),
    (1024, 16, ((('c', 1, 64), ('c', 2, 64)), (('c', 1, 64), ('c', H, 32)), (('c', 1, 16),))),
    # a saturated thread coming back from its wait while another one is granted
    (1024, 16, ((('c', 0, 1024), ('c', 0, 1024), ('c', 4, 1)), (('c', H, 64), ('c', H, 64), ('c', 4, 1)))),
    # the same through real streams
    (1024, 64, ((('r', 0, 1024), ('r', 0, 1024), ('r', 4, 64)), (('r', H, 64), ('r', H, 64), ('r', 4, 64)))),
    # three waiters: the wait formula under interleaving
    (1024, 16, ((('c', 0, 512), ('c', 0, 512)), (('c', 0, 1024), ('c', Q16, 256)), (('c', 0, 2048),))),
]


def random_programs(rng):
    mx = rng.choice((1024, 1024, 4096, 1000))
    n = rng.randrange(2, 5)
    progs = []
    for _ in range(n):
        k = rng.randrange(2, 5)
        kind = 'r' if rng.random() < 0.3 else 'c'
        progs.append(tuple((kind, rng.choice((0, Q16, H, 1, 1, 2, 4)),
                            rng.choice((1, 64, mx // 16, mx // 2, mx, 2 * mx))) for _ in range(k)))
    return mx, rng.choice((16, 64, mx // 4)), tuple(progs)


def model_line(mx, r):
    return c13.bucket_line(mx, r['ops'])


def check_runs(ctx, mx, thr, programs, runs, use_model, stats):
    """monitors already ran inside; now the model replay; report"""
    model = common.run_model('bandwidth', [model_line(mx, r) for r in runs]) if use_model and runs else [None] * len(runs)
    for r, m in zip(runs, model):
        stats['runs'] += 1
        stats['steps'] += r['steps']
        key = ' '.join(r['schedule'])
        stats['distinct'].add((mx, thr, key))
        refusals = sum(1 for o in r['outs'] if isinstance(o, tuple))
        ctx.count('bandwidth-sched', 1, nontrivial_key=(case_str(mx, programs), key) if refusals or len(r['ops']) > 2 else None,
                  threads=len(programs))
        problems = list(r['viol'])
        if not problems and m is not None:
            v, i = c13.compare(r['outs'], m.split(), c13.is_pow2(mx))
            if v == 'mismatch':
                problems.append(('corr', f'lock-order step {i} ({r["schedule"][i] if i < len(r["schedule"]) else "?"}): '
                                         f'the implementation answered {r["outs"][i] if i < len(r["outs"]) else "?"}, the '
                                         f'model, reading the clock inside the lock, '
                                         f'{m.split()[i] if i < len(m.split()) else "?"}'))
            elif v == 'tie-skip':
                ctx.cov['near_tie_histories_cut'] = ctx.cov.get('near_tie_histories_cut', 0) + 1
        for clause, text in problems[:1]:
            case = {'kind': 'sched', 'max': mx, 'thr': thr,
                    'programs': [[[s[0], str(s[1]), s[2]] for s in p] for p in programs],
                    'choices': r['choices']}
            msg = (f'{text}; programs {case_str(mx, programs)}; lock order: {" ".join(r["schedule"])}; '
                   f'scheduler choices {r["choices"]}')
            if clause == 'corr':
                ctx.report('corr:bandwidth:lock-order-linearisation', msg,
                           {'kind': 'correspondence', 'theorem_or_correspondence': 'model replay of scheduled runs',
                            'case': case}, no_input=True)
            else:
                ctx.report(f'bw:conc:{clause}:{case_str(mx, programs)}', msg,
                           {'kind': 'schedule', 'component': 'LeakyBucket+scheduler', 'clause': clause, 'case': case})


def run(ctx, use_model=True):
    from harness.sched import core
    thorough = ctx.thorough()
    dfs_cap = 4000 if thorough else 350
    runs_per_set = 60 if thorough else 12
    n_random_sets = 120 if thorough else 30
    stats = {'runs': 0, 'steps': 0, 'distinct': set(), 'sets': 0, 'exhausted': 0}
    for si, (mx, thr, programs) in enumerate(SMALL_SETS):
        stats['sets'] += 1
        prefix, n, complete, batch = [], 0, False, []
        while n < dfs_cap:
            ch = DfsChooser(prefix)
            r = run_conc(mx, thr, programs, ch)
            batch.append(r)
            n += 1
            choices, widths = r['choices'], ch.widths
            k = len(choices) - 1
            while k >= 0 and choices[k] + 1 >= widths[k]:
                k -= 1
            if k < 0:
                complete = True
                break
            prefix = choices[:k] + [choices[k] + 1]
        if not complete:
            for j in range(runs_per_set * 4):
                seed = f'{ctx.seed}:c13conc:{si}:{j}'
                ch = core.RandomChooser(seed) if j % 2 == 0 else core.PCTChooser(seed, depth=3, horizon=30)
                batch.append(run_conc(mx, thr, programs, ch))
        check_runs(ctx, mx, thr, programs, batch, use_model, stats)
        stats['exhausted'] += 1 if complete else 0
        if si in (0, 2):
            ctx.sample({'component': 'bandwidth-sched', 'case': case_str(mx, programs), 'schedules': len(batch),
                        'schedule_tree_exhausted': complete, 'one_run_lock_order': batch[-1]['schedule']}, limit=2)
    rng = ctx.rng('conc-programs')
    for si in range(n_random_sets):
        mx, thr, programs = random_programs(rng)
        stats['sets'] += 1
        batch = []
        for j in range(runs_per_set):
            seed = f'{ctx.seed}:c13conc:r{si}:{j}'
            ch = core.RandomChooser(seed) if j % 2 == 0 else core.PCTChooser(seed, depth=3, horizon=30)
            batch.append(run_conc(mx, thr, programs, ch))
        check_runs(ctx, mx, thr, programs, batch, use_model, stats)
    comp = ctx.cov['components'].setdefault('bandwidth-sched', {'cases': 0, 'hist': {}})
    comp['program_sets'] = stats['sets']
    comp['program_sets_with_exhausted_schedule_tree'] = stats['exhausted']
    comp['scheduling_steps'] = stats['steps']
    comp['distinct_lock_orders'] = len(stats['distinct'])
    return stats


def replay_case(case, use_model=True):
    from harness.sched import core
    programs = tuple(tuple((s[0], Fraction(s[1]), s[2]) for s in p) for p in case['programs'])
    r = run_conc(case['max'], case['thr'], programs, core.ReplayChooser(case['choices']))
    problems = list(r['viol'])
    if not problems and use_model:
        m = common.run_model('bandwidth', [model_line(case['max'], r)])[0]
        v, i = c13.compare(r['outs'], m.split(), c13.is_pow2(case['max']))
        if v == 'mismatch':
            problems.append(('corr', f'lock-order step {i}: implementation and model disagree'))
    print('lock order:', ' '.join(r['schedule']))
    for c, t in problems:
        print('conc:', c, '--', t)
    return bool(problems)
