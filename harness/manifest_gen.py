#!/usr/bin/env python3
"""Regenerates /verif/MANIFEST.json from the table below (run by hand after a
property's check is complete; never at check time)."""
import json
import os

V = os.path.dirname(os.path.dirname(os.path.abspath(__file__)))
TECH = 'machine-checked proof in Coq 8.16 over a Gallina model + checked tie to /repo (regenerated tables / extracted-model correspondence)'

CLAIMED = {
 'C14': dict(
   text='Coq theorems (coq/props/C14.v) over the planning model for ALL sizes, chunk sizes and thresholds: least part count, ranges consecutive/non-overlapping/from 0 to the last byte, byte-string tiling, multipart iff size >= threshold, adjusted chunk within [5 MiB, 5 GiB], <= 10,000 parts up to 5 TiB, changed only when a limit requires it. Tie checked every run: limits regenerated from source, differential of the real planning functions against the extracted model (exhaustive scaled domain, boundary grid at real scale incl. float-rounding edges), end-to-end plans of real _submit runs.',
   ref='DESIGN.md 5.C14',
   note='Trusted: Coq kernel; gen_tables.py; ExtrOcamlBasic extraction + OCaml line driver + Python differential harness (correspondence only). Float division int(math.ceil(a/float(b))) is modelled as integer ceiling division (equal below 2^53; tied by the boundary grid).'),
 'C16': dict(
   text='Coq theorems (coq/props/C16.v) over ALL consistent delivery histories (no length bound) of a model mirroring DeferQueue.request_writes as repaired and both non-seekable output-manager paths: writes = object prefix with offsets = running length, every byte position written exactly once, next_offset = contiguous frontier of the delivered intervals (withheld until contiguous, released as soon as contiguous), complete coverage => whole object; pre-repair models refuted by computation. Tie checked every run: differential of the real DeferQueue / queue_file_io_task / get_io_write_tasks against the extracted model on all maximal grammar histories in small scopes, random grammar histories, a malformed stream, an implementation-only oracle, and real TransferManager downloads to a non-seekable stream under injected stream faults.',
   ref='DESIGN.md 5.C16',
   note='Trusted: Coq kernel; extraction + OCaml driver + Python harness (correspondence only). Assumed: one FIFO IO worker; heapq order = sorted (offset, bytes) list; GetObject returns the stored range.'),
 'C15': dict(
   text='Coq theorems (coq/props/C15.v): for ALL extra-args dictionaries the kwargs of every call are determined argument-by-argument plus a finite checksum summary (pointwise theorem, by induction); over the finite table modes x operations x allowed names x checksum summaries, forwarded = accepted-by-the-installed-botocore-shape modulo exactly the exceptions C15 itemises (vm_compute over regenerated Tables.v x Shapes.v); nothing unknown is ever sent; disallowed names rejected before any request; values unmodified; full-object checksum and CRC32-default rules. Legacy: same table with the four F6 cells carved out by name and proved to be real deviations (known finding). Tie checked every run: both translators re-run (source ast, botocore service model), exhaustive cell differential of the real TransferManager / legacy S3Transfer / process-pool submitter+worker against the extracted routing model, plus pairs, random subsets and a malformed stream; implementation-only oracle against botocore.',
   ref='DESIGN.md 5.C15',
   note='Trusted: Coq kernel; gen_tables.py and gen_shapes.py (fail-closed); extraction + OCaml driver + Python harness (correspondence only). botocore request serialisation is not exercised; the process pool runs in-process. Known finding F6: four legacy CompleteMultipartUpload cells (known_findings.json).'),
 'C17': dict(
   text='Coq theorems (coq/props/C17.v) over a model of TransferCoordinator + TransferFuture for EVERY op sequence, every callback-script environment: done() is monotone, a finished transfer cannot be restarted, the first failure/cancellation is kept, only set_result / override / the user\'s set_exception-on-done replaces it, exception stored <=> status failed/cancelled and result() raises exactly it once the event is set, callbacks and cleanups run once in registration order and cleanups never under success; re-entrancy: no self-deadlock when announces happen in done states (pre-F2 variant refuted by witness). Tie checked every run: exhaustive op sequences (length 4 over 14 ops, 5 over the core alphabet), random sequences with scripts, 2-3 thread merges, re-runs with the genuine locks under a watchdog, static ast check that state writes sit inside the lock. System-level forward order (not-started -> queued -> running) is proved for the protocol model Sys.v (proofs/SysCoordInv.v).',
   ref='DESIGN.md 5.C17',
   note='Trusted: Coq kernel; extraction + OCaml driver + Python harness (correspondence only). Atomicity of each critical section is checked statically (ast), not proved; forward order of the non-done states is a system-level fact, not a class-level one.'),
 'C20': dict(
   text='Coq theorems (coq/props/C20.v) over ALL submit/complete/shutdown sequences of a model of the CRT manager glue: permits + holders = 128 (count regenerated from source) in every reachable state, exactly one release per transfer on all four paths (construction failure, success, error, cancel), on_done order (publish/remove, then subscribers, then release, then the after-done flag), path downloads renamed on success / removed on error-cancel, shutdown returns iff every after-done flag is set, the (128+1)-th submit blocks rather than fails. Tie checked every run: differential of the real CRTTransferManager against the extracted model through a deterministic stub awscrt (exhaustive <=4-5 ops, sampled deeper, random, one run at 128+5 transfers, helper-thread blocking tests).',
   ref='DESIGN.md 5.C20',
   note='Partial: the real CRT client and its callback threads are not available in this sandbox (stub awscrt: a request finishes once, the future is resolved before on_done, a failing make_request creates no file). Exactly-one-release is stated for non-raising subscribers (a raising on_done subscriber leaks the permit and hangs shutdown: refuted lemma, outside C20\'s quantifier). Trusted: Coq kernel; gen_tables.py; extraction + OCaml driver + Python harness.'),
 'C09': dict(
   text='Coq theorems (coq/props/C09.v, 28) over models of ReadFileChunk, the aggregated progress callback and the download retry loop: for every request script of botocore\'s life cycle (any number/position of body rewinds, any read sizes, any reads and seeks while reporting is suppressed) the sum of reported bytes equals min(amount_read, size) whenever reporting is enabled, hence stays within [0, size] and equals size after a complete send; the aggregator conserves the raw sum; for every stream-fault script, read-size script and cancel point the per-range download sum stays in [0, len] and equals len on success; at most num_download_attempts requests, non-retryable errors never retried; copy part sizes sum to the size; totals over any interleaving of parts. The hypothesis "suppressed segments return to where they began" is decided by an extracted, proved-sound checker on every recorded body script. Tie checked every run: differential of the real ReadFileChunk (through all three input managers + aggregator) and of GetObjectTask._main (both classes) against the extracted models, end-to-end TransferManager runs with recording subscribers, and uploads through the real botocore client with a stubbed HTTP layer (500 then 200).',
   ref='DESIGN.md 5.C09',
   note='Trusted: Coq kernel; extraction + OCaml drivers + Python harness (correspondence only). Upload part sizes summing to the transfer size are taken from C14/C01. For uploads the subscriber never sees negative values (the aggregator absorbs a rewind into its pending amount): "taken back with negative values" holds literally at the raw callback level and for downloads.'),
 'C12': dict(
   text='Coq theorems (coq/props/C12.v, 20) over models of SlidingWindowSemaphore and TaskSemaphore for EVERY acquire/release history: tokens per tag are 0,1,2,... in acquisition order; count = capacity - sum over tags of (next - lowest) for every history, with lowest the least unreleased token for well-formed ones; pending list sorted strictly between lowest and next; out-of-order release frees nothing and releasing the lowest frees exactly the released run; non-blocking acquire at zero raises and changes nothing; unknown tag / never-issued token / token below lowest rejected without change (true since fix F13; the pre-fix code is refuted by witness); quiescence restores full capacity; small-step model with sleeping/notified acquirers: a sleeping waiter always has a waker and no reachable state is stuck (no lost wake-up). Tie checked every run: exhaustive op sequences (2 tags, capacities 1..3, tokens 0..3, length <= 5), random histories to length 200 over 3 tags, malformed stream, real-thread blocking scenarios replayed through the concurrent model, end-to-end quiescence of every manager semaphore on real TransferManager runs.',
   ref='DESIGN.md 5.C12',
   note='Trusted: Coq kernel; extraction + OCaml driver + Python harness (correspondence only). Each lock-protected body is one atomic step; Condition.notify wakes at most one sleeping waiter, spurious wake-ups allowed. "Not blocked forever" is proved as an inductive safety invariant (a waker always exists), not as a temporal property under fairness. Window theorems that mention released sets assume well-formed histories (a checkable predicate: every accepted release names a granted, not yet released token).'),
}


def main():
    props = [json.loads(l) for l in open(os.path.join(V, 'properties.jsonl'))]
    m = {
        'version': 1,
        'setup_cmd': './setup.sh',
        'hooks': {
            'guard': 'S3TRANSFER_VERIF',
            'enable': 'no source hooks: the harness instruments /repo from /verif by replacing module attributes (threading shims, executor_cls=, class-level wrappers); S3TRANSFER_VERIF is reserved and unused',
            'baseline_off_cmd': 'cd /repo && /venv/bin/python -m pytest -q -p no:cacheprovider tests/unit tests/functional',
            'source_commits': [], 'add_only': True},
        'engines': [{
            'name': 'coq-proof+correspondence', 'path': 'check',
            'serves_properties': sorted(CLAIMED),
            'kind_free_text': 'Coq 8.16 theorems over hand-written Gallina models (coq/), tables regenerated from /repo by a fail-closed ast extractor, models extracted to OCaml and run against the real Python code by a differential harness and, for the concurrent protocol, by trace validation of real TransferManager runs under a cooperative deterministic scheduler (harness/)'}],
        'checks': [],
        'notes': 'See DESIGN.md. Every check: gate -> regenerate coq/gen from /repo -> full .vo build of the property\'s theorem file -> Print Assumptions -> correspondence (extracted model vs real code) -> search oracle on any break. Known findings: known_findings.json.',
        'not_applicable': [],
    }
    for p in props:
        i = p['id']
        if i in CLAIMED:
            c = CLAIMED[i]
            m['checks'].append({
                'property_id': i,
                'quick_cmd': f'./check {i} --tier quick',
                'thorough_cmd': f'./check {i} --tier thorough',
                'evidence_file': f'/verif/evidence/{i}.json',
                'replay_cmd_template': f'./check {i} --replay {{path}}',
                'engine': 'coq-proof+correspondence',
                'level_claimed': {'category': c.get('level', 'proof'), 'text': c['text'], 'design_ref': c['ref']},
                'level_note': c['note'],
                'technique': c.get('tech', TECH)})
        else:
            m['not_applicable'].append({
                'property_id': i,
                'reason': 'not yet claimed: model, theorems and correspondence for this property are still being built (DESIGN.md section 8 build order)'})
    json.dump(m, open(os.path.join(V, 'MANIFEST.json'), 'w'), indent=1)
    print('claimed:', sorted(CLAIMED))


if __name__ == '__main__':
    main()
