"""In-process stand-ins for what ProcessPoolDownloader forks, installed at module
level in s3transfer.processpool so that the downloader can be built by its PUBLIC
constructor and driven through its public API (download_file / shutdown / with)
without setting any private attribute by name.

SyncPool: queues are plain FIFO queues; Process.start() only records the process,
Process.join() runs the process's own run() to completion in the calling thread
(the downloader's shutdown puts the stop signals before it joins, so run() ends);
the monitor manager hands out a REAL TransferMonitor.  One start/shutdown cycle
per download batch: after shutdown() the same downloader object starts again."""
import queue


_MISSING = object()


class SyncPool:
    def __init__(self, client, osutil=None):
        self.client, self.osutil = client, osutil
        self.patches = []
        self.queues = []
        self.monitors = []
        self.procs = []
        self.ran = set()

    def _patch(self, obj, name, new):
        self.patches.append((obj, name, obj.__dict__.get(name, _MISSING)))
        setattr(obj, name, new)

    def install(self):
        from s3transfer import processpool as m
        rig = self
        self.m = m
        real_mp = m.multiprocessing

        class MP:
            @staticmethod
            def Queue(maxsize=0):
                q = queue.Queue()
                rig.queues.append(q)
                return q

            def __getattr__(self_, name):
                return getattr(real_mp, name)

        class Manager:
            def start(self_, initializer=None, initargs=()):
                pass

            def TransferMonitor(self_):
                mon = m.__dict__['TransferMonitor']()
                rig.monitors.append(mon)
                return mon

            def shutdown(self_):
                pass

        class Signal:
            SIGINT, SIG_IGN = 2, 1

            @staticmethod
            def signal(signum, handler):
                return None

        class Factory:
            def create_client(self_):
                return rig.client

        def start(proc):
            rig.procs.append(proc)

        def join(proc, timeout=None):
            if not getattr(proc, '_verif_ran', False):
                proc._verif_ran = True        # (ids are reused after a restart of the pool: flag the object)
                proc.run()
        self._patch(m, 'multiprocessing', MP())
        self._patch(m, 'ClientFactory', lambda client_kwargs=None: Factory())
        self._patch(m, 'TransferMonitorManager', Manager)
        self._patch(m, 'signal', Signal)
        self._patch(m.BaseS3TransferProcess, 'start', start)
        self._patch(m.BaseS3TransferProcess, 'join', join)
        if self.osutil is not None:
            self._patch(m, 'OSUtils', lambda: rig.osutil)
        return self

    def uninstall(self):
        for obj, name, old in reversed(self.patches):
            if old is _MISSING:
                try:
                    delattr(obj, name)
                except AttributeError:
                    pass
            else:
                setattr(obj, name, old)
        self.patches = []

    def __enter__(self):
        return self.install()

    def __exit__(self, *a):
        self.uninstall()

    def pending_requests(self):
        """True when a download request is waiting in the first queue the downloader created."""
        return bool(self.queues) and not self.queues[0].empty()
