"""Entry point: ./check <ID> [--tier quick|thorough] [--replay file]"""
import argparse
import importlib
import json
import os
import sys
import traceback

from harness import common


def main():
    ap = argparse.ArgumentParser()
    ap.add_argument('prop')
    ap.add_argument('--tier', default=os.environ.get('VERIF_TIER', 'quick'),
                    choices=['quick', 'thorough'])
    ap.add_argument('--replay')
    a = ap.parse_args()
    try:
        seed = int(os.environ.get('VERIF_SEED', '0'))
    except ValueError:
        seed = 0
    prop = a.prop.upper()
    mod = importlib.import_module(f'harness.props.{prop.lower()}')
    common.setup_repo_path()
    ctx = common.Ctx(prop, a.tier, seed)
    if a.replay:
        data = json.load(open(a.replay))
        try:
            still = mod.replay(ctx, data)
        except common.BuildBroken as b:
            print(f'replay: build broken: {b.what}')
            still = True
        print(f'replay {a.replay}: {"STILL FAILS" if still else "passes"}')
        if still:
            print(f'VIOLATION property={prop} replay={a.replay}')
        sys.exit(1 if still else 0)
    try:
        mod.run(ctx)
    except common.BuildBroken as b:
        # nothing below the break could be searched: still a violation (unverified)
        ctx.report(f'broken:{b.what}', f'{b.what}', {'kind': 'theorem', 'broken': b.what,
                   'log': b.log}, no_input=True)
    except Exception:
        tb = traceback.format_exc()
        print(tb)
        ctx.report('harness-crash', 'the check itself crashed; nothing it reports is to be believed',
                   {'kind': 'harness', 'traceback': tb}, no_input=True)
    sys.exit(ctx.finish(getattr(mod, 'LEVEL', 'proof')))


if __name__ == '__main__':
    main()
