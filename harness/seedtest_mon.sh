#!/bin/bash
# dev tool: like seedtest.sh but runs only the Python monitors + trace validation of a
# system-level property (theorem file overridden), to see whether they catch a change.
P=$1; PATCH=$(readlink -f "$2")
W=/tmp/seedmon-$$
mkdir -p $W
rsync -a --exclude .git /verif/ $W/verif/
rsync -a /repo/ $W/repo/
( cd $W/repo && git checkout -q -- . && git apply "$PATCH" ) || { echo "PATCH DOES NOT APPLY"; rm -rf $W; exit 3; }
cat > $W/t.py <<PY
import sys, time, importlib, json
sys.path.insert(0,'$W/verif')
from harness import common
common.setup_repo_path()
mod=importlib.import_module('harness.props.'+sys.argv[1].lower())
mod.PROP_FILE='C14'
ctx=common.Ctx(sys.argv[1].upper(),'quick',0)
mod.run(ctx)
print(sys.argv[1], 'runs', ctx.cov['evaluations'], 'viol', len(ctx.violations))
for v in ctx.violations[:4]: print('  ', ('[no-input] ' if v['no_input'] else '')+v['what'][:260])
PY
( cd $W/verif && VERIF_REPO=$W/repo PYTHONPATH=$W/repo:$W/verif PYTHONHASHSEED=0 timeout 1500 /venv/bin/python $W/t.py $P 2>&1 | tail -7 )
rm -rf $W
