"""Role-based discovery of private names in /repo's classes.

The harness observes a few private attributes (locks, the done event, callback
lists ...).  A behaviour-preserving rename of such an attribute must not make a
check alarm, so the harness never hard-codes those names: it asks this module,
which reads the class's source (ast) and finds the attribute by the ROLE it
plays in a public method (e.g. "the lock `cancel()` takes", "the event
`announce_done()` sets", "the attribute the `status` property returns").  When
discovery fails the historical name is returned if the class still has it,
else None -- callers then degrade (and say so) instead of crashing.
"""
import ast
import inspect
import textwrap


class ClassAst:
    def __init__(self, cls):
        self.cls = cls
        self.methods = {}
        try:
            src = textwrap.dedent(inspect.getsource(cls))
            tree = ast.parse(src)
            cdef = tree.body[0]
            for n in cdef.body:
                if isinstance(n, (ast.FunctionDef, ast.AsyncFunctionDef)):
                    # the last definition wins (property setter after getter is not used in /repo)
                    self.methods.setdefault(n.name, n)
        except (OSError, TypeError, SyntaxError, IndexError):
            pass

    # -- helpers: all return attribute / method names in source order ----------
    @staticmethod
    def _self_attr(e):
        if isinstance(e, ast.Attribute) and isinstance(e.value, ast.Name) and e.value.id == 'self':
            return e.attr
        return None

    def _nodes(self, m):
        f = self.methods.get(m)
        if f is None:
            return []
        return sorted((n for n in ast.walk(f) if hasattr(n, 'lineno')), key=lambda n: (n.lineno, n.col_offset))

    def locks_taken(self, m):
        """`with self.X:` items and `self.X.acquire()` calls."""
        out = []
        for n in self._nodes(m):
            if isinstance(n, ast.With):
                for it in n.items:
                    a = self._self_attr(it.context_expr)
                    if a and a not in out:
                        out.append(a)
            elif isinstance(n, ast.Call) and isinstance(n.func, ast.Attribute) and n.func.attr == 'acquire':
                a = self._self_attr(n.func.value)
                if a and a not in out:
                    out.append(a)
        return out

    def returned_attr(self, m):
        for n in self._nodes(m):
            if isinstance(n, ast.Return) and n.value is not None:
                a = self._self_attr(n.value)
                if a:
                    return a
        return None

    def attrs_with_call(self, m, meths):
        """X for every `self.X.<meth>(...)` with meth in meths."""
        out = []
        for n in self._nodes(m):
            if isinstance(n, ast.Call) and isinstance(n.func, ast.Attribute) and n.func.attr in meths:
                a = self._self_attr(n.func.value)
                if a and a not in out:
                    out.append(a)
        return out

    def self_calls(self, m):
        out = []
        for n in self._nodes(m):
            if isinstance(n, ast.Call):
                a = self._self_attr(n.func)
                if a:
                    out.append(a)
        return out

    def assigned_from(self, m, name):
        """X for `self.X = <name>` (a parameter or local called `name`)."""
        for n in self._nodes(m):
            if isinstance(n, ast.Assign) and isinstance(n.value, ast.Name) and n.value.id == name:
                for t in n.targets:
                    a = self._self_attr(t)
                    if a:
                        return a
        return None

    def assigned_const(self, m, const):
        for n in self._nodes(m):
            if isinstance(n, ast.Assign) and isinstance(n.value, ast.Constant) and n.value.value is const:
                for t in n.targets:
                    a = self._self_attr(t)
                    if a:
                        return a
        return None

    def aug_assigned(self, m):
        for n in self._nodes(m):
            if isinstance(n, ast.AugAssign):
                a = self._self_attr(n.target)
                if a:
                    return a
        return None


_cache = {}


def _pick(cls, found, default):
    """found if it is a plausible attribute name, else the historical default."""
    if found:
        return found
    return default


def coordinator(cls):
    """Names of TransferCoordinator's private parts, by role."""
    key = ('coord', cls)
    if key in _cache:
        return _cache[key]
    A = ClassAst(cls)
    first = lambda l: l[0] if l else None
    sl = first(A.locks_taken('cancel')) or first(A.locks_taken('set_result'))
    n = {
        'state_lock': _pick(cls, sl, '_lock'),
        'done_callbacks_lock': _pick(cls, first(A.locks_taken('add_done_callback')), '_done_callbacks_lock'),
        'done_callbacks': _pick(cls, first(A.attrs_with_call('add_done_callback', ('append',))), '_done_callbacks'),
        'failure_cleanups_lock': _pick(cls, first(A.locks_taken('add_failure_cleanup')), '_failure_cleanups_lock'),
        'failure_cleanups': _pick(cls, first(A.attrs_with_call('add_failure_cleanup', ('append',))), '_failure_cleanups'),
        'assoc_lock': _pick(cls, first(A.locks_taken('add_associated_future')), '_associated_futures_lock'),
        'done_event': _pick(cls, first(A.attrs_with_call('announce_done', ('set',)))
                            or first(A.attrs_with_call('result', ('wait',))), '_done_event'),
        'result': _pick(cls, A.assigned_from('set_result', 'result'), '_result'),
        'status': _pick(cls, A.returned_attr('status'), '_status'),
        'exception': _pick(cls, A.returned_attr('exception'), '_exception'),
    }
    # the two runner methods: the self-calls of announce_done before / after the event is set
    calls = [c for c in A.self_calls('announce_done')]
    n['run_failure_cleanups'] = calls[0] if len(calls) == 2 else '_run_failure_cleanups'
    n['run_done_callbacks'] = calls[-1] if len(calls) == 2 else '_run_done_callbacks'
    _cache[key] = n
    return n


def task(cls):
    """Names of Task's private parts, by role."""
    key = ('task', cls)
    if key in _cache:
        return _cache[key]
    A = ClassAst(cls)
    n = {
        'coordinator': A.assigned_from('__init__', 'transfer_coordinator') or '_transfer_coordinator',
        'main_kwargs': A.assigned_from('__init__', 'main_kwargs') or '_main_kwargs',
        'pending_main_kwargs': A.assigned_from('__init__', 'pending_main_kwargs') or '_pending_main_kwargs',
        'is_final': A.assigned_from('__init__', 'is_final') or '_is_final',
    }
    calls = A.self_calls('__call__')
    # __call__: wait on dependencies, gather kwargs, execute main, (log_and_set_exception in the handler)
    n['wait_deps'] = calls[0] if len(calls) >= 3 else '_wait_on_dependent_futures'
    n['get_kwargs'] = calls[1] if len(calls) >= 3 else '_get_all_main_kwargs'
    n['execute_main'] = calls[2] if len(calls) >= 3 else '_execute_main'
    _cache[key] = n
    return n


def count_invoker(cls):
    key = ('cci', cls)
    if key in _cache:
        return _cache[key]
    A = ClassAst(cls)
    first = lambda l: l[0] if l else None
    n = {
        'lock': first(A.locks_taken('increment')) or '_lock',
        'count': A.aug_assigned('increment') or '_count',
        'finalized': A.assigned_const('finalize', True) or '_is_finalized',
    }
    _cache[key] = n
    return n


def lock_like(v):
    return hasattr(v, 'acquire') and hasattr(v, 'release') and not hasattr(v, 'wait')


def event_like(v):
    return hasattr(v, 'set') and hasattr(v, 'is_set') and hasattr(v, 'wait')


def instance_locks(obj):
    """Names of the lock-like instance attributes of obj."""
    return [k for k, v in vars(obj).items() if lock_like(v)]


# ---------------------------------------------------------------- TransferManager / BoundedExecutor
_STAGE_OF_CFG = {'max_request_queue_size': 'req', 'max_submission_queue_size': 'sub', 'max_io_queue_size': 'io'}
_STAGE_DEFAULT = {'req': '_request_executor', 'sub': '_submission_executor', 'io': '_io_executor'}


def manager_stage_attrs(cls):
    """{'sub'|'req'|'io': attribute name}: the attribute assigned BoundedExecutor(max_size=<config>.<queue size>)."""
    key = ('mgr', cls)
    if key in _cache:
        return _cache[key]
    A = ClassAst(cls)
    out = dict(_STAGE_DEFAULT)
    found = {}
    for n in A._nodes('__init__'):
        if not (isinstance(n, ast.Assign) and isinstance(n.value, ast.Call)):
            continue
        tgt = [ClassAst._self_attr(t) for t in n.targets]
        if not tgt or not tgt[0]:
            continue
        for kw in n.value.keywords:
            if kw.arg == 'max_size' and isinstance(kw.value, ast.Attribute) and kw.value.attr in _STAGE_OF_CFG:
                found.setdefault(_STAGE_OF_CFG[kw.value.attr], []).append(tgt[0])
    # only an unambiguous wiring is believed (each of the three queue sizes used by exactly one
    # executor); otherwise the historical names stand (a mis-wired size is for C10 to judge)
    if sorted(found) == ['io', 'req', 'sub'] and all(len(v) == 1 for v in found.values()) and \
            len({v[0] for v in found.values()}) == 3:
        out = {k: v[0] for k, v in found.items()}
    _cache[key] = out
    return out


def manager_stages(manager):
    """{'sub'|'req'|'io': the BoundedExecutor instance} (missing roles are absent)."""
    out = {}
    for role, attr in manager_stage_attrs(type(manager)).items():
        ex = getattr(manager, attr, None)
        if ex is not None:
            out[role] = ex
    return out


def _sem_like(v):
    return hasattr(v, 'acquire') and hasattr(v, 'release') and type(v).__name__.endswith('Semaphore')


def executor_semaphore(ex):
    for v in vars(ex).values():
        if _sem_like(v):
            return v
    return None


def executor_tag_semaphores(ex):
    for v in vars(ex).values():
        if isinstance(v, dict) and v and all(_sem_like(x) for x in v.values()):
            return v
    return {}


def semaphore_free(sem):
    """Free permits of a TaskSemaphore (its inner counting semaphore's value) or of a
    SlidingWindowSemaphore (public current_count())."""
    if hasattr(sem, 'current_count'):
        # read the counter itself (current_count() takes the semaphore's lock, which is a
        # scheduling point of the cooperative scheduler)
        key = ('swcount', type(sem))
        if key not in _cache:
            _cache[key] = ClassAst(type(sem)).returned_attr('current_count') or '_count'
        return getattr(sem, _cache[key], None)
    for v in vars(sem).values():
        if hasattr(v, '_value'):
            return v._value
    return None


def function_container(cls):
    key = ('fc', cls)
    if key not in _cache:
        A = ClassAst(cls)
        _cache[key] = {'func': A.assigned_from('__init__', 'func') or '_func',
                       'args': A.assigned_from('__init__', 'args') or '_args',
                       'kwargs': A.assigned_from('__init__', 'kwargs') or '_kwargs'}
    return _cache[key]


def sliding_window_state(sem):
    """(next-token table, lowest-unreleased table, pending-release table) of a
    SlidingWindowSemaphore, found by the historical names or, after a rename, by
    shape (a defaultdict of ints; a dict of ints; a dict of lists).  None when
    the bookkeeping is not recognisable (callers then compare observable
    behaviour only)."""
    import collections
    d = vars(sem)
    if all(k in d for k in ('_tag_sequences', '_lowest_sequence', '_pending_release')):
        return d['_tag_sequences'], d['_lowest_sequence'], d['_pending_release']
    dicts = {k: v for k, v in d.items() if isinstance(v, dict)}
    nxt = [v for v in dicts.values() if isinstance(v, collections.defaultdict)]
    rest = [v for v in dicts.values() if not isinstance(v, collections.defaultdict)]
    if len(nxt) != 1 or len(rest) != 2:
        return None
    a, b = rest
    def kind(x):
        vals = list(x.values())
        if not vals:
            return None
        return 'list' if all(isinstance(v, list) for v in vals) else 'int' if all(isinstance(v, int) for v in vals) else '?'
    ka, kb = kind(a), kind(b)
    if ka == 'int' or kb == 'list':
        if ka in ('int', None) and kb in ('list', None):
            return nxt[0], a, b
    if kb == 'int' or ka == 'list':
        if kb in ('int', None) and ka in ('list', None):
            return nxt[0], b, a
    if ka is None and kb is None and not nxt[0]:
        return nxt[0], a, b          # all empty: the order does not matter
    return None


def find_attr(obj, pred, default):
    """Name of the unique instance attribute whose value satisfies pred; the
    historical name `default` when it still exists or the match is not unique."""
    d = vars(obj)
    if default in d and pred(d[default]):
        return default
    hits = [k for k, v in d.items() if pred(v)]
    return hits[0] if len(hits) == 1 else default


def counting_semaphore_like(v):
    return hasattr(v, 'acquire') and hasattr(v, 'release') and hasattr(v, '_value')


def param_attr(cls, method, param, default):
    """self.X assigned from parameter `param` in `method` of cls."""
    key = ('param', cls, method, param)
    if key not in _cache:
        _cache[key] = ClassAst(cls).assigned_from(method, param) or default
    return _cache[key]
