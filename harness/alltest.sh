#!/bin/bash
# alltest.sh <patch.diff> [tier] [ids...]
# Applies a change to a scratch copy of /repo and runs every (or the listed)
# property check from a scratch copy of /verif.  One status line per check.
# Used for behaviour-preserving rewrites (no check may alarm) and for seeded
# changes (which checks alarm).
set -u
PATCH=$(readlink -f "$1"); TIER=${2:-quick}; shift; shift 2>/dev/null
IDS=${*:-C01 C02 C03 C04 C05 C06 C07 C08 C09 C10 C11 C12 C13 C14 C15 C16 C17 C18 C19 C20}
W=/tmp/alltest-$$
mkdir -p $W
rsync -a --exclude .git /verif/ $W/verif/
rsync -a /repo/ $W/repo/
( cd $W/repo && git checkout -q -- . && git apply "$PATCH" ) || { echo "PATCH DOES NOT APPLY"; rm -rf $W; exit 3; }
cd $W/verif
for P in $IDS; do
  s=$(date +%s)
  VERIF_REPO=$W/repo timeout 1800 ./check $P --tier $TIER > $W/$P.log 2>&1; rc=$?
  e=$(date +%s)
  echo "$P rc=$rc t=$((e-s))s $(grep -m1 '^VIOLATION' $W/$P.log | cut -c1-300)"
  if [ $rc -ne 0 ]; then grep -v '^KNOWN-FINDING' $W/$P.log | tail -6 | cut -c1-600 | sed 's/^/    | /'; fi
done
rm -rf $W
