#!/bin/bash
# seedcollect.sh <ID> <offset> : confirm /tmp/seed-<ID>/seeded/m1..m3 ourselves and, when confirmed,
# keep them as /verif/seeded/<ID>-m<offset+i>/ (patch.diff, demo.py, meta.json + our confirmation).
ID=$1; OFF=${2:-3}; WT=/tmp/seed-$ID
for i in 1 2 3; do
  D=$WT/seeded/m$i
  [ -f $D/patch.diff ] || { echo "$ID m$i: missing"; continue; }
  out=$(/verif/harness/seedverify.sh $WT m$i 2>&1 | tail -1)
  echo "$out"
  base=$(echo "$out" | sed -n 's/.*demo_clean=\([0-9]*\).*/\1/p'); mut=$(echo "$out" | sed -n 's/.*demo_mutant=\([0-9]*\).*/\1/p')
  suite=$(echo "$out" | sed -n "s/.*suite='\(.*\)' lines.*/\1/p"); lines=$(echo "$out" | sed -n 's/.* lines=\([0-9]*\).*/\1/p')
  if [ "$base" = "0" ] && [ -n "$mut" ] && [ "$mut" != "0" ] && echo "$suite" | grep -q "passed" && ! echo "$suite" | grep -q "failed"; then
    T=/verif/seeded/$ID-m$((OFF+i)); mkdir -p $T; cp $D/patch.diff $D/demo.py $T/
    /venv/bin/python - "$D/meta.json" "$T/meta.json" "$base" "$mut" "$suite" "$lines" <<'PY'
import json,sys
src,dst,base,mut,suite,lines=sys.argv[1:7]
try: m=json.load(open(src))
except Exception: m={}
m['origin']='independent sub-agent given only the property text, summaries of earlier seeds to avoid, and its own scratch worktree (nothing from /verif)'
m['confirmed_by_us']={'ran':'harness/seedverify.sh (demo on clean tree, demo with the change, full unit+functional suite with the change)',
  'demo_exit_clean_tree':int(base),'demo_exit_with_change':int(mut),'suite_with_change':suite,'changed_lines':int(lines or 0)}
json.dump(m,open(dst,'w'),indent=1)
PY
    echo "  kept as $T"
  else
    echo "  NOT CONFIRMED ($ID m$i)"
  fi
done
