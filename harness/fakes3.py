"""A reference S3 + recording client used by the end-to-end ties.

It is the Python twin of coq/model/S3Spec.v: an object table and a multipart
table, every request logged with a begin and an end record, a fault oracle that
can strike a request before or after its effect, and an emulation of botocore's
request life cycle for bodies:  Sign . Send . (reset_stream . Sign . Send)*
(request-created handlers registered on client.meta.events are invoked exactly
as botocore's endpoint does: first-handlers, signer reads, last-handlers, send).
"""
import io
import re
import threading


class FakeFault(Exception):
    """A non-retryable request failure injected by the harness."""

    def __init__(self, tag):
        super().__init__(f'injected fault {tag}')
        self.tag = tag


class Events:
    def __init__(self):
        self.first, self.mid, self.last = [], [], []

    def register_first(self, name, handler, unique_id=None):
        self._add(self.first, name, handler, unique_id)

    def register(self, name, handler, unique_id=None):
        self._add(self.mid, name, handler, unique_id)

    def register_last(self, name, handler, unique_id=None):
        self._add(self.last, name, handler, unique_id)

    def _add(self, lst, name, handler, uid):
        if uid is not None and any(u == uid for (_, _, u) in lst):
            return
        lst.append((name, handler, uid))

    def emit_request_created(self, request, operation_name, phase):
        lst = {'first': self.first, 'mid': self.mid, 'last': self.last}[phase]
        for name, handler, _ in lst:
            if name.startswith('request-created'):
                handler(request=request, operation_name=operation_name)


class _Config:
    def __init__(self, calc):
        self.request_checksum_calculation = calc
        self.user_agent_extra = None


class _Meta:
    def __init__(self, calc):
        self.events = Events()
        self.config = _Config(calc)
        self.region_name = 'us-west-2'


class _Request:
    def __init__(self, body):
        self.body = body


class TrackedBytes(bytes):
    """A chunk handed out by a GetObject body whose lifetime is observed: the
    counter holds the number of such bytes still referenced anywhere (C11:
    data received from the service and not yet let go)."""

    def __new__(cls, v, counter):
        o = super().__new__(cls, v)
        o._counter = counter
        counter[0] += len(o)
        return o

    def __del__(self):
        self._counter[0] -= len(self)


class Body:
    """GetObject streaming body: data, a read-size script and an optional
    fault after `fail_after` delivered bytes."""

    def __init__(self, data, read_sizes=None, fail_after=None, exc=None, on_read=None, track=None):
        self._track = track
        self._data = data
        self._pos = 0
        self._read_sizes = list(read_sizes or [])
        self._fail_after = fail_after
        self._exc = exc
        self._on_read = on_read

    def read(self, amt=None):
        if self._on_read:
            self._on_read()
        n = len(self._data) - self._pos if amt is None else amt
        if self._read_sizes:
            n = min(n, max(1, self._read_sizes.pop(0)))
        if self._fail_after is not None:
            if self._pos >= self._fail_after:
                raise self._exc
            n = min(n, self._fail_after - self._pos)
        d = self._data[self._pos:self._pos + n]
        self._pos += len(d)
        if self._track is not None and d:
            d = TrackedBytes(d, self._track)
        return d


def _dechunk(raw):
    """payload of an aws-chunked body: (hex-size CRLF data CRLF)* 0 CRLF [trailers] CRLF"""
    out, i = [], 0
    while True:
        j = raw.index(b'\r\n', i)
        n = int(raw[i:j].split(b';')[0], 16)
        if n == 0:
            break
        out.append(raw[j + 2:j + 2 + n])
        i = j + 2 + n + 2
    return b''.join(out)


def parse_range(r, size):
    m = re.fullmatch(r'bytes=(\d+)-(\d*)', r)
    if not m:
        raise ValueError(f'bad range {r!r}')
    s = int(m.group(1))
    e = int(m.group(2)) if m.group(2) else size - 1
    return s, min(e, size - 1)


_INPUT_MEMBERS = {}


def input_members(op):
    """Names of the members of the S3 operation's input shape, from the installed botocore's
    service model (read from disk; no network).  Empty set when the model cannot be read."""
    if not _INPUT_MEMBERS:
        try:
            import botocore.loaders
            model = botocore.loaders.Loader().load_service_model('s3', 'service-2')
            for name, o in model['operations'].items():
                shape = o.get('input', {}).get('shape')
                _INPUT_MEMBERS[name] = set(model['shapes'].get(shape, {}).get('members', {})) if shape else set()
        except Exception:      # noqa
            _INPUT_MEMBERS['__failed__'] = set()
    return _INPUT_MEMBERS.get(op, set())


class FakeS3:
    """Thread-safe under the cooperative scheduler and under real threads."""

    def __init__(self, checksum_calculation='when_required'):
        self.meta = _Meta(checksum_calculation)
        self.objects = {}          # (bucket, key) -> bytes
        self.uploads = {}          # upload_id -> {'bucket','key','parts':{n: (etag, bytes)}, 'state'}
        self.log = []              # request records, in begin order
        self._lock = threading.Lock()
        self._next_upload = 0
        self._next_etag = 0
        # hooks
        self.fault = None          # callable(rec, when) -> exception or None
        self.body_script = None    # callable(op, kwargs) -> dict(sign_reads=[..], resends=int, send_reads=[..])
        self.validate_params = True
        self.rejected_params = []   # (op, [unknown parameter names]) refused before any request was made
        self.get_script = None     # callable(kwargs, attempt_no) -> dict(read_sizes, fail_after, exc)
        self.track_get = None      # [n]: bytes handed out by GetObject bodies that are still referenced
        self.on_event = None       # callable(kind, rec) for schedulers (yield points)
        self.inflight = 0
        self.max_inflight = 0
        self._get_attempts = {}

    # -- plumbing ---------------------------------------------------------
    def _begin(self, op, kwargs):
        # botocore validates the parameters of a call against the operation's input shape BEFORE
        # anything is sent: an unknown parameter is a client-side ParamValidationError
        if getattr(self, 'validate_params', True):
            unknown = sorted(set(kwargs) - input_members(op)) if input_members(op) else []
            if unknown:
                from botocore.exceptions import ParamValidationError
                self.rejected_params.append((op, unknown))
                raise ParamValidationError(report=f'Unknown parameter in input: "{unknown[0]}", must be one of: '
                                                  + ', '.join(sorted(input_members(op))))
        rec = {'op': op, 'kwargs': {k: v for k, v in kwargs.items() if k != 'Body'},
               'idx': None, 'done': False, 'outcome': None}
        with self._lock:
            rec['idx'] = len(self.log)
            self.log.append(rec)
            self.inflight += 1
            self.max_inflight = max(self.max_inflight, self.inflight)
        if self.on_event:
            self.on_event('begin', rec)
        self._maybe_fault(rec, 'before')
        return rec

    def _maybe_fault(self, rec, when):
        if self.fault:
            e = self.fault(rec, when)
            if e is not None:
                self._end(rec, f'fault-{when}')
                raise e

    def _end(self, rec, outcome='ok'):
        with self._lock:
            rec['done'] = True
            rec['outcome'] = outcome
            self.inflight -= 1
        if self.on_event:
            self.on_event('end', rec)

    def _finish(self, rec, result):
        if self.on_event:
            self.on_event('effect', rec)
        self._maybe_fault(rec, 'after')
        self._end(rec)
        return result

    def _etag(self):
        with self._lock:
            self._next_etag += 1
            return f'etag-{self._next_etag}'

    def _consume_body(self, op_name, body, kwargs, rec):
        """botocore's life cycle: Sign . Send . (reset . Sign . Send)*"""
        script = self.body_script(op_name, kwargs) if self.body_script else {}
        sign_reads = script.get('sign_reads', [])
        resends = script.get('resends', 0)
        send_reads = script.get('send_reads', [])
        cut = list(script.get('resend_after', []))   # bytes sent before each failed send
        req = _Request(body)
        ev = self.meta.events
        data = b''
        try:
            return self._consume_body_inner(op_name, body, rec, req, ev, sign_reads, resends, send_reads, cut, script)
        except BaseException:
            # reading the body failed on the client side (source error, interrupted
            # reader): the request never reached the service and is over
            self._end(rec, 'client-abort')
            raise

    def _consume_body_inner(self, op_name, body, rec, req, ev, sign_reads, resends, send_reads, cut, script=None):
        data = b''
        script = script or {}
        phase = getattr(self, 'on_phase', None) or (lambda p: None)
        pre = script.get('pre_reads')
        if pre and hasattr(body, 'read'):
            # botocore's before-call handlers (flexible checksums in a header, Content-MD5) read the
            # whole payload BEFORE the request object exists, i.e. before any request-created event
            phase('pre')
            for n in pre:
                body.read(n)
            body.seek(0)
        if script.get('chunked') and hasattr(body, 'read'):
            # trailer checksums: the request body is botocore's aws-chunked wrapper around the stream
            from botocore.httpchecksum import AwsChunkedWrapper
            req.body = AwsChunkedWrapper(body)
        for attempt in range(resends + 1):
            phase('sign')
            ev.emit_request_created(req, op_name, 'first')      # disable progress
            if sign_reads and hasattr(body, 'read'):
                for n in sign_reads:                             # signer hashes the payload
                    body.read(n)
                body.seek(0)
            ev.emit_request_created(req, op_name, 'mid')
            ev.emit_request_created(req, op_name, 'last')       # enable progress
            phase('send')
            limit = cut[attempt] if attempt < len(cut) and attempt < resends else None
            if req.body is not body:
                data = _dechunk(self._send(req.body, send_reads, None))
            else:
                data = self._send(body, send_reads, limit)
            if attempt < resends:
                (req.body if req.body is not body else body).seek(0)    # request.reset_stream()
        phase('idle')
        rec['body_len'] = len(data)
        return data

    @staticmethod
    def _send(body, send_reads, limit):
        if isinstance(body, (bytes, bytearray)):
            return bytes(body)
        out = []
        total = 0
        sizes = list(send_reads)
        while True:
            n = sizes.pop(0) if sizes else 8192
            if limit is not None:
                if total >= limit:
                    break
                n = min(n, limit - total)
            d = body.read(n)
            if not d:
                break
            out.append(d)
            total += len(d)
        return b''.join(out)

    # -- operations -------------------------------------------------------
    def put_object(self, Bucket, Key, Body, **kw):
        rec = self._begin('PutObject', dict(Bucket=Bucket, Key=Key, **kw))
        data = self._consume_body('PutObject', Body, kw, rec)
        with self._lock:
            self.objects[(Bucket, Key)] = data
        return self._finish(rec, {'ETag': self._etag()})

    def create_multipart_upload(self, Bucket, Key, **kw):
        rec = self._begin('CreateMultipartUpload', dict(Bucket=Bucket, Key=Key, **kw))
        with self._lock:
            self._next_upload += 1
            uid = f'upload-{self._next_upload}'
            self.uploads[uid] = {'bucket': Bucket, 'key': Key, 'parts': {}, 'state': 'open',
                                 'completes': 0, 'aborts': 0}
        rec['upload_id'] = uid
        return self._finish(rec, {'UploadId': uid})

    def upload_part(self, Bucket, Key, UploadId, PartNumber, Body, **kw):
        rec = self._begin('UploadPart', dict(Bucket=Bucket, Key=Key, UploadId=UploadId,
                                              PartNumber=PartNumber, **kw))
        data = self._consume_body('UploadPart', Body, kw, rec)
        etag = self._etag()
        with self._lock:
            up = self.uploads[UploadId]
            rec['state_at_effect'] = up['state']
            up['parts'][PartNumber] = (etag, data)
        resp = {'ETag': etag}
        alg = kw.get('ChecksumAlgorithm')
        if alg:
            resp[f'Checksum{alg.upper()}'] = f'sum-{etag}'
        return self._finish(rec, resp)

    def upload_part_copy(self, CopySource, Bucket, Key, UploadId, PartNumber, **kw):
        rec = self._begin('UploadPartCopy', dict(CopySource=CopySource, Bucket=Bucket, Key=Key,
                                                  UploadId=UploadId, PartNumber=PartNumber, **kw))
        src = self.objects[(CopySource['Bucket'], CopySource['Key'])]
        s, e = parse_range(kw['CopySourceRange'], len(src)) if 'CopySourceRange' in kw else (0, len(src) - 1)
        etag = self._etag()
        with self._lock:
            up = self.uploads[UploadId]
            rec['state_at_effect'] = up['state']
            up['parts'][PartNumber] = (etag, src[s:e + 1])
        result = {'ETag': etag}
        if self.copy_part_checksums:
            result.update(self.copy_part_checksums(kw, etag))
        return self._finish(rec, {'CopyPartResult': result})

    copy_part_checksums = None

    def complete_multipart_upload(self, Bucket, Key, UploadId, MultipartUpload, **kw):
        rec = self._begin('CompleteMultipartUpload', dict(Bucket=Bucket, Key=Key, UploadId=UploadId,
                                                           MultipartUpload=MultipartUpload, **kw))
        with self._lock:
            up = self.uploads[UploadId]
            rec['state_at_effect'] = up['state']
            parts = MultipartUpload['Parts']
            nums = [p['PartNumber'] for p in parts]
            ok = up['state'] == 'open' and nums == sorted(set(nums)) and all(
                p['PartNumber'] in up['parts'] and up['parts'][p['PartNumber']][0] == p['ETag']
                for p in parts)
            if ok:
                self.objects[(Bucket, Key)] = b''.join(up['parts'][n][1] for n in nums)
                up['state'] = 'completed'
            up['completes'] += 1
        if not ok:
            self._end(rec, 'rejected')
            raise FakeFault('complete rejected: bad parts or upload not open')
        return self._finish(rec, {})

    def abort_multipart_upload(self, Bucket, Key, UploadId, **kw):
        rec = self._begin('AbortMultipartUpload', dict(Bucket=Bucket, Key=Key, UploadId=UploadId, **kw))
        with self._lock:
            up = self.uploads[UploadId]
            rec['state_at_effect'] = up['state']
            rec['others_inflight'] = [r['idx'] for r in self.log
                                      if r is not rec and not r['done']
                                      and r['kwargs'].get('UploadId') == UploadId]
            if up['state'] == 'open':
                up['state'] = 'aborted'
            up['aborts'] += 1
        return self._finish(rec, {})

    def head_object(self, Bucket, Key, **kw):
        rec = self._begin('HeadObject', dict(Bucket=Bucket, Key=Key, **kw))
        data = self.objects[(Bucket, Key)]
        return self._finish(rec, {'ContentLength': len(data)})

    def get_object(self, Bucket, Key, **kw):
        rec = self._begin('GetObject', dict(Bucket=Bucket, Key=Key, **kw))
        data = self.objects[(Bucket, Key)]
        if 'Range' in kw:
            s, e = parse_range(kw['Range'], len(data))
            data = data[s:e + 1]
        with self._lock:
            k = (Bucket, Key, kw.get('Range'))
            att = self._get_attempts.get(k, 0)
            self._get_attempts[k] = att + 1
        rec['attempt'] = att
        sc = self.get_script(kw, att) if self.get_script else {}
        body = Body(data, sc.get('read_sizes'), sc.get('fail_after'), sc.get('exc'), sc.get('on_read'), self.track_get)
        return self._finish(rec, {'Body': body, 'ContentLength': len(data)})

    def copy_object(self, CopySource, Bucket, Key, **kw):
        rec = self._begin('CopyObject', dict(CopySource=CopySource, Bucket=Bucket, Key=Key, **kw))
        with self._lock:
            self.objects[(Bucket, Key)] = self.objects[(CopySource['Bucket'], CopySource['Key'])]
        return self._finish(rec, {})

    def delete_object(self, Bucket, Key, **kw):
        rec = self._begin('DeleteObject', dict(Bucket=Bucket, Key=Key, **kw))
        with self._lock:
            self.objects.pop((Bucket, Key), None)
        return self._finish(rec, {})

    # -- helpers for oracles ----------------------------------------------
    def calls(self, op=None):
        return [r for r in self.log if op is None or r['op'] == op]


class NonSeekableReader:
    """A readable, non-seekable source with a short-read script."""

    def __init__(self, data, read_sizes=None):
        self._b = io.BytesIO(data)
        self._sizes = list(read_sizes or [])

    def read(self, n=-1):
        if n is None or n < 0:
            return self._b.read()
        if self._sizes:
            n = min(n, max(1, self._sizes.pop(0)))
        return self._b.read(n)


class ShortReadBytesIO(io.BytesIO):
    """A seekable stream whose read(n) returns at most `cap` bytes (like a pipe-backed or
    network-backed file object): always allowed by the io protocol."""

    def __init__(self, data, cap=2):
        super().__init__(data)
        self._cap = max(1, cap)

    def read(self, n=-1):
        if n is None or n < 0:
            return super().read(n)
        return super().read(min(n, self._cap))


class NonSeekableWriter:
    def __init__(self):
        self.chunks = []

    def write(self, d):
        self.chunks.append(bytes(d))

    def getvalue(self):
        return b''.join(self.chunks)
