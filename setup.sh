#!/bin/bash
# Build the whole framework offline from files on disk: regenerate coq/gen from
# /repo, full .vo build of every Coq file, extraction, OCaml drivers.
set -e
cd "$(dirname "$0")"
export PYTHONPATH=/repo:/verif PYTHONHASHSEED=0 PYTHONDONTWRITEBYTECODE=1
/venv/bin/python - <<'PY'
import sys, glob, os
from harness import common
with common.Lock():
    bad = common.gate()
    if bad:
        print('\n'.join(bad)); sys.exit(1)
    print(common.regen())
    try:
        common.coq_make([], timeout=3000)
        for m in sorted(glob.glob(os.path.join(common.OCAML, '*_main.ml'))):
            common.ocaml_build(os.path.basename(m)[:-len('_main.ml')])
    except common.BuildBroken as b:
        print('SETUP FAILED:', b.what); print(b.log); sys.exit(1)
print('setup ok')
PY
