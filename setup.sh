#!/bin/bash
# Build the whole framework offline from files on disk: regenerate coq/gen from
# /repo, full .vo build of every Coq file (keep going past a file that does not
# build: each check rebuilds and reports its own targets), extraction, OCaml
# drivers.  Fails only if the theorem file of a property claimed in
# MANIFEST.json did not build.
cd "$(dirname "$0")"
REPO="${VERIF_REPO:-/repo}"
export VERIF_REPO="$REPO" PYTHONPATH="$REPO:/verif" PYTHONHASHSEED=0 PYTHONDONTWRITEBYTECODE=1
/venv/bin/python - <<'PY'
import sys, glob, os, json
from harness import common
with common.Lock():
    bad = common.gate()
    if bad:
        print('gate:', '\n'.join(bad))
    try:
        print(common.regen())
        common.ensure_makefile()
    except common.BuildBroken as b:
        print('SETUP FAILED:', b.what); print(b.log); sys.exit(1)
    rc, out = common.sh(['timeout', '3000', 'make', '-k', f'-j{common.NPROC}'], 3100, cwd=common.COQ)
    print(out[-3000:])
    claimed = [c['property_id'] for c in json.load(open(os.path.join(common.VERIF, 'MANIFEST.json')))['checks']]
    missing = [p for p in claimed if not os.path.exists(os.path.join(common.COQ, 'props', p + '.vo'))]
    for m in sorted(glob.glob(os.path.join(common.OCAML, '*_main.ml'))):
        comp = os.path.basename(m)[:-len('_main.ml')]
        try:
            common.ocaml_build(comp)
        except common.BuildBroken as b:
            print('note: driver', comp, 'not built:', b.what)
    if missing:
        print('SETUP FAILED: theorem files of claimed properties did not build:', missing)
        sys.exit(1)
print('setup ok')
PY
